#!/bin/bash
# Negative controls: every substantial-but-correct rewrite is applied in a scratch worktree and the checks listed in
# its meta.json must stay silent (exit 0). usage: controls/run_all.sh [budget-seconds]
VERIF="$(cd "$(dirname "${BASH_SOURCE[0]}")/.." && pwd)"
BUDGET="${1:-40}"
REPO="${VERIF_REPO_BASE:-/repo}"
WT=/tmp/verif-control-wt
git -C "$REPO" worktree remove --force "$WT" 2>/dev/null
git -C "$REPO" worktree add -q --detach "$WT" HEAD || exit 2
alarms=0
for d in "$VERIF"/controls/*/; do
  id=$(basename "$d"); [ -f "$d/patch.diff" ] || continue
  git -C "$WT" checkout -q -- . ; git -C "$WT" clean -fdq
  # A rewrite replaces whole functions: later 'fix:' commits to the same functions leave it without a tree to apply to.
  # Such a control is kept for the record (meta.json says what it taught and on which commit it ran) and skipped.
  git -C "$WT" apply "$d/patch.diff" 2>/dev/null || { echo "$id: skipped - written against an earlier tree ($(python3 -c "import json,sys;print(json.load(open(sys.argv[1])).get('ran_on','?'))" "$d/meta.json")); the current tree has since been repaired in the functions it rewrites"; continue; }
  for prop in $(python3 -c "import json,sys;print(' '.join(json.load(open(sys.argv[1]))['checks']))" "$d/meta.json"); do
    extra=""; case "$prop" in C11|C12) extra="--miri-cases 200";; esac
    out=$(cd "$VERIF" && VERIF_REPO="$WT" ./check "$prop" --budget-s "$BUDGET" $extra 2>&1); code=$?
    if [ $code -eq 0 ]; then echo "$id $prop: silent"; else echo "$id $prop: EXIT $code $(echo "$out" | grep -E 'signature:|HARNESS' | head -3 | tr '\n' ' ')"; alarms=$((alarms+1)); fi
  done
done
git -C "$REPO" worktree remove --force "$WT"
rm -rf "${VERIF_BUILD_DIR:-$VERIF/target}"/gen/tmp_verif_control_wt_*
echo "alarms=$alarms"
[ $alarms -eq 0 ]
