#!/bin/sh
# C07 finding 2: an input path that exists but is neither a regular file nor a directory (FIFO, character device,
# socket, or /dev/stdin when stdin is a pipe/tty) is dropped WITHOUT any diagnostic. The input was never read, yet the
# generators are started, files are written and the exit status is 0.
#
# usage: run.sh <path to the slicec worktree>      exits 1 if the violation is observed, 0 if the property holds.
WT=${1:?usage: run.sh <path to slicec worktree>}
BIN="$WT/target/debug/slicec"
if [ ! -x "$BIN" ]; then (cd "$WT" && cargo build --offline -q -p slicec) || { echo "SETUP: build failed"; exit 99; }; fi
T=$(mktemp -d) || exit 99
trap 'rm -rf "$T"' EXIT
cd "$T" || exit 99

cat > ok.slice <<'EOF'
module Test
struct S { a: int32 }
EOF
cat > bad.slice <<'EOF'
module Bad
struct E { a: DoesNotExist }
EOF
cat > gen.sh <<EOF
#!/bin/sh
cat > /dev/null
echo started >> "$T/gen.log"
printf '\004\024a.txt\010hi\374\000'
EOF
chmod +x gen.sh
mkfifo fifo.slice
mkdir refs && mkfifo refs/inner.slice

bad=0
check() { # $1 = label ; remaining = command line ; stdin is inherited
    label=$1; shift
    rm -f gen.log; rm -rf out; mkdir out
    "$@" -G ./gen.sh -O out --disable-color > stdout.txt 2> stderr.txt
    rc=$?
    nerr=$(grep -c '^error \[' stderr.txt)
    started=no; [ -e gen.log ] && started=yes
    echo "[$label] exit=$rc errors=$nerr generator-started=$started files=$(ls out | tr '\n' ' ')"
    if [ "$started" = yes ] || [ "$rc" -eq 0 ]; then
        echo "   VIOLATION: the input was never read and no error was emitted, but generation ran / exit status is 0"
        bad=1
    fi
}

# sanity: the same content in a regular file is an error and blocks generation
rm -f gen.log; "$BIN" bad.slice -G ./gen.sh --disable-color > /dev/null 2>&1; echo "[sanity: bad.slice as a regular file] exit=$? generator-started=$([ -e gen.log ] && echo yes || echo no)"

# (a) the erroneous program is piped in through /dev/stdin
#     (done with a named pipe instead of '|' so that the shell function runs in this shell, the effect is the same)
mkfifo stdin.pipe
cat bad.slice > stdin.pipe &
check "cat bad.slice | slicec /dev/stdin" "$BIN" /dev/stdin < stdin.pipe
wait
# (b) a FIFO named like a Slice file, given as a source (nobody ever opens it: slicec does not even try to read it)
check "slicec fifo.slice ok.slice" "$BIN" fifo.slice ok.slice
# (c) a character device given as a source
check "slicec /dev/null" "$BIN" /dev/null
# (d) the same, as a reference file and inside a reference directory
check "slicec ok.slice -R fifo.slice" "$BIN" ok.slice -R fifo.slice
check "slicec ok.slice -R refs (refs/inner.slice is a FIFO)" "$BIN" ok.slice -R refs

[ "$bad" -eq 0 ] && echo "property holds"
exit $bad
