#!/bin/sh
# C07 finding 5: a program that '--dry-run' certifies as error-free (exit status 0, no diagnostics) kills the compiler
# as soon as a generator is given: the AST -> request conversion (slice_file_converter.rs) recurses once per nesting
# level of an anonymous type, uses far more stack per level than the parser/validators do, and overflows the stack.
# Exit status 134 (SIGABRT) without any error diagnostic; the generator is never started.
#
# usage: run.sh <path to the slicec worktree>      exits 1 if the violation is observed, 0 if the property holds.
WT=${1:?usage: run.sh <path to slicec worktree>}
BIN="$WT/target/debug/slicec"
if [ ! -x "$BIN" ]; then (cd "$WT" && cargo build --offline -q -p slicec) || { echo "SETUP: build failed"; exit 99; }; fi
T=$(mktemp -d) || exit 99
trap 'rm -rf "$T"' EXIT
cd "$T" || exit 99

cat > gen.sh <<EOF
#!/bin/sh
cat > /dev/null
echo started >> "$T/gen.log"
printf '\000\000'
EOF
chmod +x gen.sh

bad=0
# 8000 is enough for a debug build with the default 8 MiB stack; larger depths are tried for other build profiles.
for depth in 8000 20000 40000; do
    {
        printf 'module M\nstruct S { a: '
        i=0; while [ $i -lt $depth ]; do printf 'Sequence<'; i=$((i+1)); done
        printf 'int32'
        i=0; while [ $i -lt $depth ]; do printf '>'; i=$((i+1)); done
        printf ' }\n'
    } > deep.slice

    "$BIN" deep.slice --dry-run -G ./gen.sh --disable-color > dry.out 2> dry.err; rc_dry=$?
    rm -f gen.log
    ( "$BIN" deep.slice -G ./gen.sh --disable-color > gen.out 2> gen.err ) 2>/dev/null; rc_gen=$?
    nerr=$(grep -c '^error \[' gen.err)
    started=no; [ -e gen.log ] && started=yes
    echo "[depth $depth] --dry-run: exit=$rc_dry ($(wc -c < dry.err) bytes of diagnostics) | with generator: exit=$rc_gen error-diagnostics=$nerr generator-started=$started $(grep -m1 overflowed gen.err)"
    if [ "$rc_dry" -eq 0 ] && [ "$rc_gen" -ne 0 ] && [ "$nerr" -eq 0 ]; then
        echo "   VIOLATION: error-free program (per --dry-run), yet non-zero exit status without any error diagnostic"
        bad=1
        break
    fi
done
[ "$bad" -eq 0 ] && echo "property holds"
exit $bad
