#!/bin/sh
# C07 finding 3: cyclic definitions that neither cycle detector knows about (a type alias that reaches itself through
# an anonymous Sequence/Dictionary/Result type; an interface that inherits from itself, directly or indirectly) do not
# produce an error diagnostic: the compiler overflows its stack and is killed by SIGABRT. The exit status is non-zero
# (134) although NO error diagnostic was emitted, with or without --dry-run, with or without generators.
#
# usage: run.sh <path to the slicec worktree>      exits 1 if the violation is observed, 0 if the property holds.
WT=${1:?usage: run.sh <path to slicec worktree>}
BIN="$WT/target/debug/slicec"
if [ ! -x "$BIN" ]; then (cd "$WT" && cargo build --offline -q -p slicec) || { echo "SETUP: build failed"; exit 99; }; fi
T=$(mktemp -d) || exit 99
trap 'rm -rf "$T"' EXIT
cd "$T" || exit 99

printf 'module M\ntypealias A = Sequence<A>\n'                                              > alias-self.slice
printf 'module M\ntypealias A = Sequence<B>\ntypealias B = Dictionary<int32, A>\nstruct S { a: A }\n' > alias-mutual.slice
printf 'module M\ninterface I : I {}\n'                                                     > iface-self.slice
printf 'module M\ninterface I : J {}\ninterface J : I {}\n'                                 > iface-mutual.slice
# controls: cycles that ARE detected give a proper error and exit status 1
printf 'module M\ntypealias A = B\ntypealias B = A\n'                                       > control-alias.slice
printf 'module M\nstruct S { s: Sequence<S> }\n'                                            > control-struct.slice
printf 'module Ok\nstruct Fine { a: int32 }\n'                                              > ok.slice

bad=0
for f in control-alias control-struct alias-self alias-mutual iface-self iface-mutual; do
    # the cyclic file is the second of two files, and --dry-run is given, to show that it does not depend on either
    ( "$BIN" ok.slice $f.slice --dry-run --disable-color > stdout.txt 2> stderr.txt ) 2>/dev/null
    rc=$?
    nerr=$(grep -c '^error \[' stderr.txt)
    echo "[$f] exit=$rc error-diagnostics=$nerr  $(grep -m1 -E 'overflowed|panicked' stderr.txt)"
    if [ "$rc" -ne 0 ] && [ "$nerr" -eq 0 ]; then
        echo "   VIOLATION: non-zero exit status without a single error diagnostic (crash instead of a cycle error)"
        bad=1
    fi
    if [ "$rc" -eq 0 ]; then
        echo "   VIOLATION: cyclic definition accepted"
        bad=1
    fi
done
[ "$bad" -eq 0 ] && echo "property holds"
exit $bad
