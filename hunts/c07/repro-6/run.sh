#!/bin/sh
# C07 finding 6: Slice files discovered in a reference directory are carried around as LOSSILY converted strings
# (file_util.rs: 'path.display().to_string()'), so a file whose name is not valid UTF-8 is looked up under a different
# name (every bad byte replaced by U+FFFD). If a file with that replacement name exists too, it is read twice (a
# DuplicateFile *warning*) and the real file is never read: its errors are never seen, generators are started, files
# are written and the exit status is 0.
#
# usage: run.sh <path to the slicec worktree>      exits 1 if the violation is observed, 0 if the property holds.
WT=${1:?usage: run.sh <path to slicec worktree>}
BIN="$WT/target/debug/slicec"
if [ ! -x "$BIN" ]; then (cd "$WT" && cargo build --offline -q -p slicec) || { echo "SETUP: build failed"; exit 99; }; fi
T=$(mktemp -d) || exit 99
trap 'rm -rf "$T"' EXIT
cd "$T" || exit 99

printf 'module Test\nstruct S { a: int32 }\n' > ok.slice
mkdir refs
raw=$(printf 'refs/b\377.slice')            # file name with the invalid UTF-8 byte 0xFF
twin=$(printf 'refs/b\357\277\275.slice')   # file name with U+FFFD REPLACEMENT CHARACTER in its place
printf 'module Bad\nstruct X { a: DoesNotExist }\n' > "$raw"  || { echo "SETUP: file system refuses non-UTF-8 names"; exit 99; }
printf 'module Good\nstruct Y { a: int32 }\n'      > "$twin" || exit 99
cat > gen.sh <<EOF
#!/bin/sh
cat > /dev/null
echo started >> "$T/gen.log"
printf '\004\024a.txt\010hi\374\000'
EOF
chmod +x gen.sh; mkdir out

# sanity: the erroneous file alone (under a valid name) is an error
cp "$raw" sanity.slice
"$BIN" ok.slice -R sanity.slice -G ./gen.sh -O out --disable-color > /dev/null 2>&1
echo "[sanity: same content under a UTF-8 name] exit=$? generator-started=$([ -e gen.log ] && echo yes || echo no)"
rm -f gen.log sanity.slice

"$BIN" ok.slice -R refs -G ./gen.sh -O out --disable-color > stdout.txt 2> stderr.txt
rc=$?
nerr=$(grep -c '^error \[' stderr.txt)
started=no; [ -e gen.log ] && started=yes
echo "[slicec ok.slice -R refs] exit=$rc error-diagnostics=$nerr generator-started=$started files=$(ls out | tr '\n' ' ')"
sed 's/^/    | /' stderr.txt
if [ "$started" = yes ] || [ "$rc" -eq 0 ]; then
    echo "VIOLATION: refs/b\\xFF.slice (which has an unresolved type) was never read, parsed or validated, yet generation ran and the exit status is $rc"
    exit 1
fi
echo "property holds"
exit 0
