#!/bin/sh
# C07 finding 1: an Error-level diagnostic reported BY a generator (in its well-formed response) is printed as plain
# text on stdout and then dropped: the exit status stays 0, the summary counts no error, and the files of that very
# generator are still written.
#
# usage: run.sh <path to the slicec worktree>      exits 1 if the violation is observed, 0 if the property holds.
WT=${1:?usage: run.sh <path to slicec worktree>}
BIN="$WT/target/debug/slicec"
if [ ! -x "$BIN" ]; then (cd "$WT" && cargo build --offline -q -p slicec) || { echo "SETUP: build failed"; exit 99; }; fi
T=$(mktemp -d) || exit 99
trap 'rm -rf "$T"' EXIT
cd "$T" || exit 99

cat > ok.slice <<'EOF'
module Test
struct S { a: int32 }
EOF

# A generator that honours the protocol: reads the whole request, exits 0, writes nothing on stderr, and replies with
#   generatedFiles = [ { path: "a.txt", contents: "hi" } ]
#   diagnostics    = [ { level: Error (2), message: "boom: cannot map S", source: none } ]
cat > gen.sh <<'EOF'
#!/bin/sh
cat > /dev/null
printf '\004\024a.txt\010hi\374'
printf '\004\000\002\110boom: cannot map S\374'
EOF
chmod +x gen.sh
mkdir out

"$BIN" ok.slice -G ./gen.sh -O out --disable-color > stdout.txt 2> stderr.txt
rc=$?
echo "exit status : $rc"
echo "stdout      : $(cat stdout.txt)"
echo "stderr      : $(cat stderr.txt)"
echo "files in out: $(ls out | tr '\n' ' ')"

bad=0
if [ "$rc" -eq 0 ]; then
    echo "VIOLATION: the generator reported an Error diagnostic ('boom: cannot map S' was printed), yet the exit status is 0"
    bad=1
fi
if [ -e out/a.txt ]; then
    echo "VIOLATION: the generator reported an Error diagnostic, yet its generated file out/a.txt was written"
    bad=1
fi
[ "$bad" -eq 0 ] && echo "property holds"
exit $bad
