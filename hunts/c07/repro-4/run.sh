#!/bin/sh
# C07 finding 4: a primitive or anonymous type written where an interface base / an enum underlying type is expected
# is a plain rule violation (compare: 'interface I : SomeStruct {}' gives error E017 and exit status 1), but the parser
# unwraps a failed downcast and PANICS: exit status 101, no error diagnostic, no summary line.
#
# usage: run.sh <path to the slicec worktree>      exits 1 if the violation is observed, 0 if the property holds.
WT=${1:?usage: run.sh <path to slicec worktree>}
BIN="$WT/target/debug/slicec"
if [ ! -x "$BIN" ]; then (cd "$WT" && cargo build --offline -q -p slicec) || { echo "SETUP: build failed"; exit 99; }; fi
T=$(mktemp -d) || exit 99
trap 'rm -rf "$T"' EXIT
cd "$T" || exit 99

printf 'module M\nstruct S {}\ninterface I : S {}\n'                > control-struct-base.slice   # proper E017
printf 'module M\nstruct S {}\nenum E : S { A }\n'                  > control-struct-underlying.slice # proper E017
printf 'module M\ninterface I : int32 {}\n'                         > iface-primitive-base.slice
printf 'module M\ninterface I : Sequence<int32> {}\n'               > iface-sequence-base.slice
printf 'module M\nenum E : Sequence<int32> { A }\n'                 > enum-sequence-underlying.slice
printf 'module M\nenum E : Dictionary<int32, int32> { A }\n'        > enum-dictionary-underlying.slice
printf 'module M\nenum E : Result<int32, int32> { A }\n'            > enum-result-underlying.slice

bad=0
for f in control-struct-base control-struct-underlying iface-primitive-base iface-sequence-base \
         enum-sequence-underlying enum-dictionary-underlying enum-result-underlying; do
    RUST_BACKTRACE=0 "$BIN" $f.slice --disable-color > stdout.txt 2> stderr.txt
    rc=$?
    nerr=$(grep -c '^error \[' stderr.txt)
    echo "[$f] exit=$rc error-diagnostics=$nerr  $(grep -m1 panicked stderr.txt)"
    if [ "$rc" -ne 0 ] && [ "$nerr" -eq 0 ]; then
        echo "   VIOLATION: non-zero exit status without a single error diagnostic (panic instead of a type-mismatch error)"
        bad=1
    fi
done
[ "$bad" -eq 0 ] && echo "property holds"
exit $bad
