#!/bin/sh
# C07 finding 8 (low): panics on the compiler's own output path / option parsing turn a warnings-only or perfectly clean
# run into exit status 101, although not a single error diagnostic was emitted:
#   (a) stdout not writable  -> main.rs:239 'emit_totals(..).expect("failed to emit totals")'      (warnings only)
#   (b) stderr not writable  -> main.rs:235 'emit_diagnostics(..).expect("failed to emit diagnostics")' (warnings only)
#   (c) stdout not writable and a generator reports an Info diagnostic -> main.rs:124 'println!' panics BEFORE the
#       generator's files are written: a clean program, a successful generator, no files, exit status 101
#   (d) -G ""  -> slice_options.rs:71 'assert!(!s.is_empty())' inside the clap value parser (e.g. -G "$UNSET_VARIABLE")
#
# usage: run.sh <path to the slicec worktree>      exits 1 if the violation is observed, 0 if the property holds.
WT=${1:?usage: run.sh <path to slicec worktree>}
BIN="$WT/target/debug/slicec"
if [ ! -x "$BIN" ]; then (cd "$WT" && cargo build --offline -q -p slicec) || { echo "SETUP: build failed"; exit 99; }; fi
[ -c /dev/full ] || { echo "SETUP: no /dev/full"; exit 99; }
T=$(mktemp -d) || exit 99
trap 'rm -rf "$T"' EXIT
cd "$T" || exit 99
export RUST_BACKTRACE=0

printf 'module Test\nstruct S { a: int32 }\n' > ok.slice
printf 'module Warn\n/// @param nope: structs have no parameters\nstruct W { a: int32 }\n' > warn.slice
cat > gen.sh <<'EOF'
#!/bin/sh
cat > /dev/null
printf '\004\024a.txt\010hi\374\000'
EOF
# replies with one file and one *Info* (level 0) diagnostic "note"
cat > gen-info.sh <<'EOF'
#!/bin/sh
cat > /dev/null
printf '\004\024a.txt\010hi\374'
printf '\004\000\000\020note\374'
EOF
chmod +x gen.sh gen-info.sh

bad=0
report() { # label rc
    echo "[$1] exit=$2"
    if [ "$2" -ne 0 ]; then echo "   VIOLATION: non-zero exit status, but no error diagnostic was emitted (warnings only / clean)"; bad=1; fi
}

mkdir out; "$BIN" warn.slice -G ./gen.sh -O out > stdout.txt 2> stderr.txt
echo "[control: warn.slice, normal stdout/stderr] exit=$? errors=$(grep -c '^error' stderr.txt) warnings=$(grep -c '^warning' stderr.txt) files=$(ls out | tr '\n' ' ')"

rm -rf out; mkdir out; "$BIN" warn.slice -G ./gen.sh -O out > /dev/full 2> stderr.txt;   report "(a) warn.slice, stdout=/dev/full" $?
rm -rf out; mkdir out; "$BIN" warn.slice -G ./gen.sh -O out > stdout.txt 2> /dev/full;   report "(b) warn.slice, stderr=/dev/full" $?
rm -rf out; mkdir out; "$BIN" ok.slice -G ./gen-info.sh -O out > /dev/full 2> stderr.txt; rc=$?
report "(c) ok.slice + generator with an Info diagnostic, stdout=/dev/full (files written: '$(ls out | tr '\n' ' ')')" $rc
rm -rf out; mkdir out; "$BIN" ok.slice -G "" -O out > stdout.txt 2> stderr.txt;          report "(d) ok.slice -G \"\"  [$(grep -m1 -A1 panicked stderr.txt | tail -1)]" $?

[ "$bad" -eq 0 ] && echo "property holds"
exit $bad
