#!/bin/sh
# C07 finding 7 (low): when the buffer for the generator request cannot be grown (slice-codec turns the failed
# 'try_reserve' into an UnexpectedEob error), main() prints "Critical error: failed to encode request payload!" with a
# Debug dump and returns exit status 79. That is a non-zero exit status for an error-free program, with no error
# diagnostic (nothing in --diagnostic-format json either), no summary, and the pending warnings are lost as well.
# The window is wide (here: every address-space limit between ~180 and ~240 MB for a 48 MiB input), because the
# request buffer is the largest contiguous allocation and it doubles.
#
# usage: run.sh <path to the slicec worktree>      exits 1 if the violation is observed, 0 if the property holds.
WT=${1:?usage: run.sh <path to slicec worktree>}
BIN="$WT/target/debug/slicec"
if [ ! -x "$BIN" ]; then (cd "$WT" && cargo build --offline -q -p slicec) || { echo "SETUP: build failed"; exit 99; }; fi
T=$(mktemp -d) || exit 99
trap 'rm -rf "$T"' EXIT
cd "$T" || exit 99

# one struct with a 48 MiB one-line doc comment
{ printf 'module M\n/// '; head -c 50331648 /dev/zero | tr '\0' 'x'; printf '\nstruct S { a: int32 }\n'; } > big.slice
cat > gen.sh <<EOF
#!/bin/sh
cat > /dev/null
echo started >> "$T/gen.log"
printf '\000\000'
EOF
chmod +x gen.sh

"$BIN" big.slice -G ./gen.sh --diagnostic-format json > /dev/null 2> err.txt
echo "[no limit] exit=$?  (the program is error-free)"

bad=0
for kb in 160000 180000 200000 220000 240000 260000; do
    ( ulimit -v $kb; RUST_BACKTRACE=0 "$BIN" big.slice -G ./gen.sh --diagnostic-format json > out.txt 2> err.txt ) 2>/dev/null
    rc=$?
    echo "[ulimit -v $kb] exit=$rc  stderr: $(head -c 120 err.txt | tr '\n' ' ')"
    if [ "$rc" -eq 79 ]; then
        echo "   VIOLATION: exit status 79 without any error diagnostic (stderr is not even JSON in json mode)"
        bad=1
    fi
done
[ "$bad" -eq 0 ] && echo "property holds (or the window was missed on this machine)"
exit $bad
