// Repro 1: Vec<T>::decode_from trusts the announced element count whenever T's encoding can be empty.
//
// `Unit` is a perfectly legal implementation of the public `DecodeFrom` trait (e.g. the mapping of a Slice `custom`
// type whose encoding is empty, or any "marker" type). Nothing in the trait forbids it.
use slice_codec::buffer::slice::SliceInputSource;
use slice_codec::buffer::InputSource;
use slice_codec::decode_from::DecodeFrom;
use slice_codec::decoder::Decoder;
use std::sync::mpsc;
use std::time::{Duration, Instant};

/// One byte in memory, zero bytes on the wire.
#[derive(Debug)]
struct Unit(#[allow(dead_code)] u8);
impl DecodeFrom for Unit {
    fn decode_from(_: &mut Decoder<impl InputSource>) -> slice_codec::Result<Self> {
        Ok(Unit(0))
    }
}

/// Zero bytes in memory, zero bytes on the wire.
#[derive(Debug)]
struct Zst;
impl DecodeFrom for Zst {
    fn decode_from(_: &mut Decoder<impl InputSource>) -> slice_codec::Result<Self> {
        Ok(Zst)
    }
}

fn main() {
    let mut failed = false;

    // (a) MEMORY + TIME: a 4-byte input that announces 2^26 elements.  (2^26 << 2) | 0b10 = 0x1000_0002, little endian.
    let input: [u8; 4] = [0x02, 0x00, 0x00, 0x10];
    let start = Instant::now();
    let mut decoder: Decoder<SliceInputSource> = Decoder::from(&input);
    let result = decoder.decode::<Vec<Unit>>();
    let elapsed = start.elapsed();
    match result {
        Ok(v) => {
            println!(
                "(a) 4-byte input {:02x?} decoded to Ok(Vec) with len={} capacity={} bytes in {:?}",
                input,
                v.len(),
                v.capacity(),
                elapsed
            );
            if v.capacity() > 1024 * input.len() {
                println!("    VIOLATION: memory cost is governed by the announced size (2^26), not by the input length (4)");
                failed = true;
            }
        }
        Err(e) => println!("(a) error (fine): {e}"),
    }

    // For contrast, the same bytes as Vec<u8> fail immediately and allocate nothing.
    let mut decoder: Decoder<SliceInputSource> = Decoder::from(&input);
    println!("    contrast: Vec<u8> on the same input -> {:?}", decoder.decode::<Vec<u8>>().map_err(|e| e.to_string()));

    // (b) TIME only: an 8-byte input that announces 2^62-1 elements of a zero-sized type; the loop runs 4.6e18 times.
    let (tx, rx) = mpsc::channel();
    std::thread::spawn(move || {
        let input = [0xffu8; 8];
        let mut decoder: Decoder<SliceInputSource> = Decoder::from(&input);
        let r = decoder.decode::<Vec<Zst>>().map(|v| v.len()).map_err(|e| e.to_string());
        let _ = tx.send(r);
    });
    match rx.recv_timeout(Duration::from_secs(10)) {
        Ok(r) => println!("(b) 8-byte input ff*8 as Vec<Zst> returned {r:?}"),
        Err(_) => {
            println!("(b) 8-byte input ff*8 as Vec<Zst> still decoding after 10 s");
            println!("    VIOLATION: time cost is governed by the announced size (2^62-1), not by the input length (8)");
            failed = true;
        }
    }

    std::process::exit(if failed { 1 } else { 0 });
}
