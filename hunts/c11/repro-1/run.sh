#!/bin/sh
# usage: run.sh <path-to-slicec-worktree>
# Exits non-zero when decoding a sequence costs time/memory proportional to the ANNOUNCED size instead of the input length.
set -eu
TREE=$(cd "${1:?usage: run.sh <worktree>}" && pwd)
HERE=$(cd "$(dirname "$0")" && pwd)
WORK=$(mktemp -d "${TMPDIR:-/tmp}/c11-repro1.XXXXXX")
trap 'rm -rf "$WORK"' EXIT
mkdir -p "$WORK/src"
cp "$HERE/src/main.rs" "$WORK/src/main.rs"
cat > "$WORK/Cargo.toml" <<TOML
[package]
name = "c11-repro1"
version = "0.0.0"
edition = "2021"

[dependencies]
slice-codec = { path = "$TREE/slice-codec" }

[workspace]
TOML
cd "$WORK"
RUST_BACKTRACE=0 CARGO_TARGET_DIR="$WORK/target" cargo run --offline --quiet
