// Repro 2: decode_varint::<T> / decode_varuint::<T> panic while *building the error* for an out-of-range value
// when size_of::<T>() is 0 or greater than 16.  T only has to implement TryFrom<i64> / TryFrom<u64>, which is the
// whole contract of these public generic functions.
use slice_codec::buffer::slice::SliceInputSource;
use slice_codec::decoder::Decoder;
use std::panic::catch_unwind;

/// A 32-byte target type (think: a big-integer or a fixed-point type) that only accepts non-negative values.
#[derive(Debug)]
struct Wide(#[allow(dead_code)] [u64; 4]);
impl TryFrom<i64> for Wide {
    type Error = ();
    fn try_from(v: i64) -> Result<Self, ()> {
        if v >= 0 { Ok(Wide([v as u64, 0, 0, 0])) } else { Err(()) }
    }
}
impl TryFrom<u64> for Wide {
    type Error = ();
    fn try_from(v: u64) -> Result<Self, ()> {
        if v < 1000 { Ok(Wide([v, 0, 0, 0])) } else { Err(()) }
    }
}

/// A zero-sized target type that only accepts the value 0 (a "must be zero" / reserved field).
#[derive(Debug)]
struct MustBeZero;
impl TryFrom<i64> for MustBeZero {
    type Error = ();
    fn try_from(v: i64) -> Result<Self, ()> {
        if v == 0 { Ok(MustBeZero) } else { Err(()) }
    }
}
impl TryFrom<u64> for MustBeZero {
    type Error = ();
    fn try_from(v: u64) -> Result<Self, ()> {
        if v == 0 { Ok(MustBeZero) } else { Err(()) }
    }
}

fn run<T: std::fmt::Debug>(
    name: &str,
    input: &'static [u8],
    f: impl FnOnce(&mut Decoder<SliceInputSource<'static>>) -> slice_codec::Result<T> + std::panic::UnwindSafe,
) -> bool {
    let outcome = catch_unwind(move || {
        let mut d: Decoder<SliceInputSource<'static>> = Decoder::from(input);
        f(&mut d).map(|v| format!("{v:?}")).map_err(|e| e.to_string())
    });
    match outcome {
        Ok(r) => {
            println!("{name} on {input:02x?}: returned {r:?}");
            false
        }
        Err(_) => {
            println!("{name} on {input:02x?}: VIOLATION - decoding panicked instead of returning an error");
            true
        }
    }
}

fn main() {
    let mut bad = false;
    // 0xfc is the 1-byte varint encoding of -1; 0xfd 0xff the 2-byte one.  0xfc as a varuint is 63.
    bad |= run("decode_varint::<Wide>", &[0xfc], |d| d.decode_varint::<Wide>());
    bad |= run("decode_varuint::<Wide>", &[0xfe, 0xff, 0xff, 0xff], |d| d.decode_varuint::<Wide>());
    bad |= run("decode_varint::<MustBeZero>", &[0x04], |d| d.decode_varint::<MustBeZero>());
    bad |= run("decode_varuint::<MustBeZero>", &[0x04], |d| d.decode_varuint::<MustBeZero>());
    // sanity: in-range values are fine
    bad |= run("decode_varint::<Wide> (in range)", &[0x04], |d| d.decode_varint::<Wide>());
    std::process::exit(if bad { 1 } else { 0 });
}
