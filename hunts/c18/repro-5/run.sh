#!/bin/bash
# Finding 5: "closes stdin early / exits without reading stdin" is only noticed when the write of the request
# happens to fail with EPIPE.  The very same generator is silently trusted (exit 0, file written) with a small
# request and rejected ("Broken pipe") with a big one; with a small request the verdict is a scheduling race.
#
# SENTENCE : "Whatever a generator does - ..., closes stdin early, ... - the compiler reports an error naming that
#            generator ... exits non-zero"  (catalogue: "exits without reading stdin")
# ROOT CAUSE: slicec/src/main.rs:72-79  the only detection is EPIPE from stdin.write_all; a successful write into a pipe
#            (<= 64 KiB stay in the kernel buffer) proves nothing, and an EPIPE is fatal even if the generator then
#            exits 0 with a valid reply.  Verdict depends on request size and on who wins write()/close().
# FIX      : ignore BrokenPipe from the stdin write, judge by exit status / stderr / reply only (and drop "closes stdin
#            early" from the promised list - it is not reliably detectable).
. "$(dirname "$0")/../common.sh"
# Never reads stdin: closes it at once, then prints a valid reply and exits 0.
cat > early.sh <<'EOG'
#!/bin/sh
exec 0<&-
printf '\004\034out.txt\024hello\374\000'
exit 0
EOG
chmod +x early.sh
rc=0
mkdir small big
"$BIN" small.slice -G ./early.sh -O small > s.out 2> s.err; s=$?
echo "small request : slicec exit status $s, out.txt written: $([ -f small/out.txt ] && echo yes || echo no)"; cat s.err
make_slice big.slice 7000
"$BIN" big.slice -G ./early.sh -O big > b.out 2> b.err; b=$?
echo "big request   : slicec exit status $b, out.txt written: $([ -f big/out.txt ] && echo yes || echo no)"; cat b.err
if [ $s -eq 0 ]; then
    echo "VIOLATION: a generator that exits without reading stdin was not reported (exit 0) and its reply was trusted"
    rc=1
fi
if [ $s -ne $b ]; then
    echo "VIOLATION: the verdict on the same generator behaviour depends on the size of the request"
    rc=1
fi

# Optional: show that even for the small request the verdict is a race (needs gcc and taskset).
if command -v gcc >/dev/null && command -v taskset >/dev/null; then
    cat > early.c <<'EOG'
#include <unistd.h>
int main(void){ close(0); if (write(1, "\x04\x1c" "out.txt" "\x14" "hello" "\xfc\x00", 17) != 17) return 1; return 0; }
EOG
    if gcc -O2 -static -o early early.c 2>/dev/null || gcc -O2 -o early early.c 2>/dev/null; then
        ok=0; bad=0
        for i in $(seq 1 200); do
            if taskset -c 0 "$BIN" small.slice -G ./early -O small >/dev/null 2>&1; then ok=$((ok+1)); else bad=$((bad+1)); fi
        done
        echo "race (same input, 200 runs pinned to one CPU): accepted $ok times, rejected $bad times"
        if [ $ok -gt 0 ] && [ $bad -gt 0 ]; then echo "VIOLATION: non-deterministic verdict"; rc=1; fi
    fi
fi
exit $rc
