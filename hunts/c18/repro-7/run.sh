#!/bin/bash
# Finding 7: the compiler panics (exit 101) when its own stdout / stderr cannot be written while it handles
# generators: (a) println! of a generator diagnostic, (b) .expect() on emit_diagnostics / emit_totals.
# In (a) the panic happens inside the generator loop, so the remaining generators are not honoured.
#
# SENTENCE : "neither crashes nor hangs"; for (a) also "still runs and honours the other generators"
# ROOT CAUSE: slicec/src/main.rs:124 println! (panics on any write error; SIGPIPE is ignored by the Rust runtime),
#            line 235 .expect("failed to emit diagnostics"), line 239 .expect("failed to emit totals").
# FIX      : writeln!(stdout) with the error ignored; replace the expects by non-panicking handling, keep exit status.
. "$(dirname "$0")/../common.sh"
[ -c /dev/full ] || { echo "no /dev/full"; exit 99; }
# valid reply: 0 files, 1 diagnostic {has_source=false, level=1 (warning), message="note", end marker}
cat > diag.sh <<'EOG'
#!/bin/sh
cat > /dev/null
printf '\000\004\000\001\020note\374'
EOG
cat > fail.sh <<'EOG'
#!/bin/sh
cat > /dev/null
exit 1
EOG
chmod +x diag.sh fail.sh
rc=0
"$BIN" small.slice -G ./diag.sh -G ./ok.sh -O . > /dev/full 2> a.err; a=$?
echo "(a) stdout=/dev/full, first generator emits a diagnostic: exit status $a, ok.sh honoured: $([ -f out.txt ] && echo yes || echo no)"; cat a.err
if [ $a -eq 101 ]; then echo "    VIOLATION: crash (panic); the other generator's file was not written"; rc=1; fi
rm -f out.txt
"$BIN" small.slice -G ./fail.sh -G ./ok.sh -O . > b.out 2> /dev/full; b=$?
echo "(b) stderr=/dev/full, first generator exits 1: exit status $b"
if [ $b -eq 101 ]; then echo "    VIOLATION: crash (panic at main.rs 'failed to emit diagnostics')"; rc=1; fi
"$BIN" small.slice -G ./fail.sh -O . > /dev/full 2> c.err; c=$?
echo "(c) stdout=/dev/full, generator exits 1: exit status $c"; cat c.err
if [ $c -eq 101 ]; then echo "    VIOLATION: crash (panic at main.rs 'failed to emit totals')"; rc=1; fi
# (d) the everyday version of (c): stdout is a pipe whose reader has gone away (slicec ... | head -1, | grep -q ...).
cat > slowfail.sh <<'EOG'
#!/bin/sh
cat > /dev/null
sleep 1
exit 1
EOG
chmod +x slowfail.sh
"$BIN" small.slice -G ./slowfail.sh -O . 2> d.err | true; d=${PIPESTATUS[0]}
echo "(d) stdout piped into a reader that has exited, generator exits 1: exit status $d"; cat d.err
if [ $d -eq 101 ]; then echo "    VIOLATION: crash (panic at main.rs 'failed to emit totals')"; rc=1; fi
exit $rc
