#!/bin/bash
# Finding 3: a generator that exits non-zero but leaves a background process holding its stdout/stderr makes the
# compiler wait for that background process (forever, for a daemon) - Child::wait_with_output reads to EOF.
#
# SENTENCE : "exits non-zero ... the compiler reports an error naming that generator, still runs and honours the other
#            generators ... neither crashes nor hangs"
# ROOT CAUSE: slicec/src/main.rs:87  Child::wait_with_output reads stdout+stderr to EOF before wait(); EOF needs every
#            inheritor of the pipe (the grandchild) to close it.
# FIX      : wait for the process, drain pipes in reader threads, stop reading once the child is reaped.
. "$(dirname "$0")/../common.sh"
cat > daemon.sh <<EOG
#!/bin/sh
cat > /dev/null
sleep 60 &
echo \$! > "$W/daemon.pid"
exit 1
EOG
chmod +x daemon.sh
start=$(date +%s)
timeout 15 "$BIN" small.slice -G ./daemon.sh -G ./ok.sh -O . > o.out 2> o.err; c=$?
end=$(date +%s)
[ -f daemon.pid ] && kill "$(cat daemon.pid)" 2>/dev/null
echo "slicec exit status: $c after $((end-start)) s (124 = still running after 15 s, killed by timeout)"; cat o.err
if [ $c -eq 124 ]; then
    echo "VIOLATION: the generator exited with status 1 immediately, yet the compiler hangs; nothing reported, ./ok.sh not honoured (out.txt exists: $([ -f out.txt ] && echo yes || echo no))"
    exit 1
fi
exit 0
