#!/bin/bash
# Finding 8: when the compiler is started with SIGCHLD ignored (inherited disposition: `trap '' CHLD` in a
# wrapper script, some daemon / CI launchers), waitpid() fails with ECHILD for every generator, so the healthy
# "other" generators are reported as failed and their replies are thrown away.
#
# SENTENCE : "still runs and honours the other generators"
# ROOT CAUSE: ignored SIGCHLD is inherited over exec; kernel auto-reaps; waitpid -> ECHILD; wait_with_output()? at
#            slicec/src/main.rs:87 turns that into a failure and drops the collected reply.
# FIX      : reset SIGCHLD to SIG_DFL at start-up, or treat ECHILD as "status unknown" and use stderr/reply.
. "$(dirname "$0")/../common.sh"
cat > fail.sh <<'EOG'
#!/bin/sh
cat > /dev/null
exit 1
EOG
chmod +x fail.sh
( trap '' CHLD; exec "$BIN" small.slice -G ./fail.sh -G ./ok.sh -O . ) > o.out 2> o.err; c=$?
echo "slicec exit status: $c, healthy generator's out.txt written: $([ -f out.txt ] && echo yes || echo no)"; cat o.err
if [ ! -f out.txt ] || grep -q "'./ok.sh'" o.err; then
    echo "VIOLATION: the healthy generator ./ok.sh ran and replied correctly but was not honoured"
    exit 1
fi
exit 0
