#!/bin/bash
# Finding 10: an output file whose content is already identical but which the compiler cannot READ (mode 0200,
# owner = the user running slicec) is not "left untouched": it is truncated and rewritten (mtime changes).
# Needs to run as a non-root user: when started as root it re-runs the compiler through setpriv as uid 65534.
#
# SENTENCE : "a file whose content is already identical is left untouched"
# ROOT CAUSE: slicec/src/main.rs:162-166  `if let Ok(current) = fs::read(..)` - every read error counts as "differs".
# FIX      : fall through to File::create only for ErrorKind::NotFound; report other read errors.
. "$(dirname "$0")/../common.sh"
RUNAS=""
if [ "$(id -u)" -eq 0 ]; then
    command -v setpriv >/dev/null || { echo "need setpriv"; exit 99; }
    RUNAS="setpriv --reuid 65534 --regid 65534 --clear-groups"
    $RUNAS "$BIN" --version >/dev/null 2>&1 || { echo "uid 65534 cannot execute $BIN"; exit 99; }
fi
mkdir out; printf hello > out/out.txt
chmod 0200 out/out.txt; touch -d '2020-01-01 00:00:00' out/out.txt
[ -n "$RUNAS" ] && chown 65534:65534 out out/out.txt
before=$(stat -c %Y out/out.txt)
$RUNAS "$BIN" small.slice -G ./ok.sh -O out > o.out 2> o.err; c=$?
after=$(stat -c %Y out/out.txt)
echo "slicec exit status: $c; mtime before=$before after=$after"; cat o.err
if [ "$before" != "$after" ]; then
    echo "VIOLATION: the file already contained exactly 'hello' but was rewritten"
    exit 1
fi
exit 0
