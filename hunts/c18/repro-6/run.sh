#!/bin/bash
# Finding 6: a reply that is only decodable as a prefix (valid reply followed by arbitrary garbage, e.g. a second
# reply, a stray debug print on stdout) is accepted silently and its files are written.
#
# SENTENCE : "files are written only from a successfully decoded reply"; title "never half-trusted"; "undecodable data"
#            must be reported.
# ROOT CAUSE: slicec/src/main.rs:117-119  two decode() calls, no check that the decoder reached the end of the buffer.
# FIX      : after line 119: if slice_decoder.remaining() != 0 { return Err(InvalidData "unexpected bytes after reply") }
. "$(dirname "$0")/../common.sh"
cat > trailing.sh <<'EOG'
#!/bin/sh
cat > /dev/null
printf '\004\034out.txt\024hello\374\000'
printf 'Traceback (most recent call last): something went badly wrong\377\376\n'
EOG
chmod +x trailing.sh
"$BIN" small.slice -G ./trailing.sh -O . > o.out 2> o.err; c=$?
echo "slicec exit status: $c, out.txt written: $([ -f out.txt ] && echo yes || echo no)"; cat o.err
if [ $c -eq 0 ] && [ -f out.txt ]; then
    echo "VIOLATION: 63 undecodable bytes after the two sequences were ignored; the reply was half-trusted"
    exit 1
fi
exit 0
