#!/bin/bash
# Finding 4: an empty generator specification (-G '' / --generator= , e.g. an unset shell variable) panics.
#
# SENTENCE : "cannot be started ... the compiler reports an error naming that generator ... exits non-zero and neither
#            crashes nor hangs"
# ROOT CAUSE: slicec/src/slice_options.rs:71  assert!(!s.is_empty())  in plugin_parser; clap passes empty values through.
# FIX      : delete the assertion; slice_options.rs:124 already returns "missing plugin path" for this input.
. "$(dirname "$0")/../common.sh"
"$BIN" small.slice -G '' -G ./ok.sh -O . > o.out 2> o.err; c=$?
echo "slicec exit status: $c"; cat o.err
if [ $c -eq 101 ] || grep -q panicked o.err; then
    echo "VIOLATION: the compiler crashed (Rust panic, exit status 101) instead of reporting the generator that cannot be started"
    exit 1
fi
exit 0
