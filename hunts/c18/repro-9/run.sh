#!/bin/bash
# Finding 9: unusual states of the output file make the compiler hang or die:
#  (a) output file is a FIFO  -> std::fs::read() in the "is it identical?" check blocks forever
#  (b) RLIMIT_FSIZE (ulimit -f) smaller than a generated file -> compiler killed by SIGXFSZ, later generators
#      not honoured, nothing reported
#
# SENTENCE : "neither crashes nor hangs"; (b) also "honours the other generators"
# ROOT CAUSE: slicec/src/main.rs:162 std::fs::read() on whatever is at the path (blocking open of a FIFO);
#            lines 169-170 File::create + write_all with default SIGXFSZ disposition.
# FIX      : compare only if metadata().is_file(); ignore SIGXFSZ at start-up so write fails with EFBIG and is reported.
. "$(dirname "$0")/../common.sh"
rc=0
mkdir a b
mkfifo a/out.txt
timeout 10 "$BIN" small.slice -G ./ok.sh -O a > a.out 2> a.err; a=$?
echo "(a) out.txt is a FIFO: slicec exit status $a (124 = hung, killed by timeout)"
if [ $a -eq 124 ]; then echo "    VIOLATION: hang"; rc=1; fi

# reply: 1 file "big.txt" with 5000 bytes of 'x'; 0 diagnostics.  size 5000 -> 2-byte varuint (5000<<2|1 = 0x4E21)
cat > bigfile.sh <<'EOG'
#!/bin/sh
cat > /dev/null
printf '\004\034big.txt\041\116'
head -c 5000 /dev/zero | tr '\0' 'x'
printf '\374\000'
EOG
chmod +x bigfile.sh
( ulimit -f 1; exec "$BIN" small.slice -G ./bigfile.sh -G ./ok.sh -O b ) > b.out 2> b.err; b=$?
echo "(b) ulimit -f 1 (blocks), 5000-byte generated file: slicec exit status $b (153 = 128+SIGXFSZ), ok.sh honoured: $([ -f b/out.txt ] && echo yes || echo no)"; cat b.err
if [ $b -ge 128 ]; then echo "    VIOLATION: the compiler was killed by a signal instead of reporting a write error"; rc=1; fi
exit $rc
