# Sourced by every repro-<n>/run.sh.  Usage of the run.sh scripts:  run.sh <path-to-slicec-worktree>
# Exit status of a run.sh:  0 = property held, 1 = VIOLATION observed, 99 = could not run the experiment.
WT=${1:?usage: run.sh <worktree>}
WT=$(cd "$WT" && pwd) || exit 99
( cd "$WT" && cargo build --offline -q -p slicec ) || { echo "build failed"; exit 99; }
BIN=$WT/target/debug/slicec
[ -x "$BIN" ] || { echo "no binary at $BIN"; exit 99; }
export RUST_BACKTRACE=0
W=$(mktemp -d "${TMPDIR:-/tmp}/c18-repro.XXXXXX") || exit 99
chmod 755 "$W"
trap 'rm -rf "$W"' EXIT
cd "$W" || exit 99

# A tiny valid Slice file (request is a few dozen bytes).
printf 'module T\nstruct S { a: int32 }\n' > small.slice

# make_slice <file> <n>: a valid Slice file with <n> structs (request is roughly 47*n bytes).
make_slice() {
    { echo "module Big"; seq 1 "$2" | sed 's/.*/struct S& { a: int32, b: string }/'; } > "$1"
}

# A well behaved generator: reads all of stdin, then replies with one file "out.txt" = "hello", no diagnostics.
cat > ok.sh <<'EOG'
#!/bin/sh
cat > /dev/null
printf '\004\034out.txt\024hello\374\000'
EOG
chmod +x ok.sh
