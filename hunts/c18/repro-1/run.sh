#!/bin/bash
# Finding 1: a generator that replies (stdout or stderr) before it has drained stdin deadlocks the compiler
# once the request no longer fits into the pipe buffers.  /bin/cat is the simplest such generator: its reply
# (an echo of the request) is "undecodable data", which the property says must be reported, not hang.
#
# SENTENCE : "Whatever a generator does - ... writes to stderr ... or replies with ... undecodable data - the compiler
#            reports an error naming that generator, still runs and honours the other generators, exits non-zero and
#            neither crashes nor hangs."
# ROOT CAUSE: slicec/src/main.rs:60-83 spawn_plugin_process writes the whole request with blocking write_all (lines 73,79)
#            while nobody reads the child's stdout/stderr (only wait_with_output, line 87, after ALL generators were
#            spawned and fed sequentially, lines 211-213).  Child blocked writing + parent blocked writing = deadlock.
#            The comment at lines 68-69 assumes generators read everything first; the property quantifies over those
#            that do not.
# FIX      : feed stdin from a thread (or poll loop) concurrently with draining stdout/stderr.
. "$(dirname "$0")/../common.sh"
rc=0

# Control: with a tiny request /bin/cat is handled exactly as the property says.
"$BIN" small.slice -G /bin/cat -G ./ok.sh -O . > ctl.out 2> ctl.err; c=$?
if [ $c -ne 1 ] || ! grep -q "'/bin/cat'" ctl.err || [ ! -f out.txt ]; then
    echo "control unexpectedly failed (rc=$c)"; cat ctl.err; exit 99
fi
rm -f out.txt

# (a) stdout variant: ~330 KB request, generator = /bin/cat, followed by a healthy generator.
make_slice big.slice 7000
timeout 20 "$BIN" big.slice -G /bin/cat -G ./ok.sh -O . > a.out 2> a.err; a=$?
echo "(a) /bin/cat with a big request: slicec exit status $a (124 = still running after 20 s, killed by timeout)"
if [ $a -eq 124 ]; then
    echo "    VIOLATION: compiler hangs; no error naming /bin/cat; healthy generator ./ok.sh never honoured (out.txt exists: $([ -f out.txt ] && echo yes || echo no))"
    rc=1
fi

# (b) stderr variant: generator writes 70000 bytes to stderr *before* reading stdin, request ~70 KB.
cat > errfirst.sh <<'EOG'
#!/bin/sh
head -c 70000 /dev/zero | tr '\0' 'x' >&2
cat > /dev/null
exit 0
EOG
chmod +x errfirst.sh
make_slice mid.slice 1500
timeout 20 "$BIN" mid.slice -G ./errfirst.sh -G ./ok.sh -O . > b.out 2> b.err; b=$?
echo "(b) stderr-before-stdin generator with a 70 KB request: slicec exit status $b"
if [ $b -eq 124 ]; then
    echo "    VIOLATION: compiler hangs on a generator that 'writes to stderr'"
    rc=1
fi
exit $rc
