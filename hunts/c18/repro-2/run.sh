#!/bin/bash
# Finding 2: a relative path containing ".." in a (successfully decoded) reply is written OUTSIDE the output
# directory, silently (exit status 0, no diagnostic).
#
# SENTENCE : "files are written only from a successfully decoded reply (relative paths are placed below the output
#            directory)"
# ROOT CAUSE: slicec/src/main.rs:155-158  PathBuf::from(dir).join(&generated_file.path)  - components never inspected.
# FIX      : reject paths containing Component::ParentDir with an InvalidInput io::Error (reported by the existing
#            "unable to write generated file" diagnostic).
. "$(dirname "$0")/../common.sh"
mkdir -p sandbox/out
# reply: 1 file, path "../escaped.txt" (14 bytes), contents "pwned" (5 bytes), end marker; 0 diagnostics
cat > dotdot.sh <<'EOG'
#!/bin/sh
cat > /dev/null
printf '\004\070../escaped.txt\024pwned\374\000'
EOG
chmod +x dotdot.sh
"$BIN" small.slice -G ./dotdot.sh -O sandbox/out > o.out 2> o.err; c=$?
echo "slicec exit status: $c"; cat o.err
echo "content of the output directory sandbox/out: [$(ls -A sandbox/out)]"
if [ -f sandbox/escaped.txt ]; then
    echo "VIOLATION: relative path '../escaped.txt' was written to sandbox/escaped.txt, i.e. not below the output directory sandbox/out"
    exit 1
fi
exit 0
