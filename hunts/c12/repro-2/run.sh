#!/usr/bin/env bash
# repro-2: when the growable target cannot grow AND the allocator also refuses the 16-byte Box that the
# error path allocates, write_byte / write_bytes_exact / reserve_space abort the process
# ("memory allocation of 16 bytes failed", SIGABRT) instead of failing with an error.
# usage: run.sh <path-to-slicec-worktree>      exits non-zero when the property is violated
set -u
TREE="${1:?usage: run.sh <worktree>}"
TREE="$(cd "$TREE" && pwd)"
WORK="$(mktemp -d "${TMPDIR:-/tmp}/c12-repro2.XXXXXX")"
trap 'rm -rf "$WORK"' EXIT
mkdir -p "$WORK/src"
cat > "$WORK/Cargo.toml" <<TOML
[package]
name = "c12-repro2"
version = "0.0.0"
edition = "2021"
[dependencies]
slice-codec = { path = "$TREE/slice-codec" }
[workspace]
TOML
cat > "$WORK/src/main.rs" <<'RS'
use slice_codec::buffer::vec::VecOutputTarget;
use slice_codec::buffer::OutputTarget;
use std::alloc::{GlobalAlloc, Layout, System};
use std::sync::atomic::{AtomicBool, Ordering};

/// A global allocator whose heap can be declared full: while EXHAUSTED is set every new allocation and every
/// growing reallocation is refused (null), exactly what a fixed-size / budgeted heap does once it is used up.
static EXHAUSTED: AtomicBool = AtomicBool::new(false);
struct Heap;
unsafe impl GlobalAlloc for Heap {
    unsafe fn alloc(&self, l: Layout) -> *mut u8 {
        if EXHAUSTED.load(Ordering::Relaxed) { return std::ptr::null_mut(); }
        System.alloc(l)
    }
    unsafe fn dealloc(&self, p: *mut u8, l: Layout) { System.dealloc(p, l) }
    unsafe fn realloc(&self, p: *mut u8, l: Layout, n: usize) -> *mut u8 {
        if n > l.size() && EXHAUSTED.load(Ordering::Relaxed) { return std::ptr::null_mut(); }
        System.realloc(p, l, n)
    }
}
#[global_allocator]
static HEAP: Heap = Heap;

fn main() {
    let which = std::env::args().nth(1).unwrap();
    let mut v: Vec<u8> = Vec::with_capacity(4);
    let mut t = VecOutputTarget::from(&mut v);
    t.write_bytes_exact(&[1, 2, 3, 4]).unwrap(); // len == capacity: the next operation does not fit without growing
    EXHAUSTED.store(true, Ordering::Relaxed);
    let failed = match which.as_str() {
        "write_byte" => t.write_byte(5).is_err(),
        "write_bytes_exact" => t.write_bytes_exact(&[5, 6]).is_err(),
        "reserve_space" => t.reserve_space(3).is_err(),
        _ => unreachable!(),
    };
    EXHAUSTED.store(false, Ordering::Relaxed);
    drop(t);
    // What the property promises: the operation fails with an error, contents and position unchanged.
    assert!(failed, "operation reported success although the target could not grow");
    assert_eq!(v, [1, 2, 3, 4]);
    println!("{which}: failed with an error, contents unchanged (property holds)");
}
RS
cd "$WORK" && CARGO_TARGET_DIR="$WORK/target" cargo build --offline --quiet || exit 99
rc=0
for op in write_byte write_bytes_exact reserve_space; do
    "$WORK/target/debug/c12-repro2" "$op"
    s=$?
    if [ $s -ne 0 ]; then echo "VIOLATION: $op on a target that cannot grow terminated the process with status $s instead of returning Err"; rc=1; fi
done
exit $rc
