#!/usr/bin/env bash
# repro-1: a Reservation is not bound to the target (or target state) that issued it, so a write
# "into a reservation" can overwrite bytes that the receiving target appended with plain writes.
# usage: run.sh <path-to-slicec-worktree>      exits non-zero when the property is violated
set -u
TREE="${1:?usage: run.sh <worktree>}"
TREE="$(cd "$TREE" && pwd)"
WORK="$(mktemp -d "${TMPDIR:-/tmp}/c12-repro1.XXXXXX")"
trap 'rm -rf "$WORK"' EXIT
mkdir -p "$WORK/src" "$WORK/tests"
cat > "$WORK/Cargo.toml" <<TOML
[package]
name = "c12-repro1"
version = "0.0.0"
edition = "2021"
[dependencies]
slice-codec = { path = "$TREE/slice-codec" }
[workspace]
TOML
: > "$WORK/src/lib.rs"
cat > "$WORK/tests/repro.rs" <<'RS'
use slice_codec::buffer::slice::SliceOutputTarget;
use slice_codec::buffer::vec::VecOutputTarget;
use slice_codec::buffer::OutputTarget;

/// (a) fixed-slice target, reservation left over from an earlier target over the same buffer.
#[test]
fn stale_reservation_overwrites_appended_bytes_in_slice_target() {
    let mut buf = [0u8; 4];
    let mut stale = {
        let mut first = SliceOutputTarget::from(&mut buf);
        first.reserve_space(2).unwrap() // 0..2 of `first`
    };
    let mut t = SliceOutputTarget::from(&mut buf);
    t.write_bytes_exact(&[1, 2, 3]).unwrap(); // log of `t` is now [1, 2, 3]; `t` never reserved anything
    let result = t.write_bytes_into_reserved_exact(&mut stale, &[9, 9]);
    let pos = 4 - t.remaining();
    drop(t);
    // An append-only log that has seen "write [1,2,3]" and no reservation holds [1,2,3] whatever happens next.
    assert_eq!(pos, 3);
    assert_eq!(&buf[..3], &[1, 2, 3], "appended bytes were overwritten (write returned {result:?})");
}

/// (b) growable target, reservation issued by a *different, still live* target of a different kind.
#[test]
fn foreign_reservation_overwrites_appended_bytes_in_vec_target() {
    let mut other = [0u8; 8];
    let mut a = SliceOutputTarget::from(&mut other);
    a.write_byte(0xAA).unwrap();
    let mut foreign = a.reserve_space(2).unwrap(); // 1..3 of `a`

    let mut v: Vec<u8> = Vec::new();
    let mut b = VecOutputTarget::from(&mut v);
    b.write_bytes_exact(&[1, 2, 3, 4]).unwrap(); // log of `b` is [1, 2, 3, 4]; `b` never reserved anything
    let result = b.write_bytes_into_reserved_exact(&mut foreign, &[9, 9]);
    drop(b);
    assert_eq!(v, [1, 2, 3, 4], "appended bytes were overwritten (write returned {result:?})");
}

/// (c) growable target, Vec cleared between two targets: the old reservation now aliases plain appended bytes.
#[test]
fn reservation_survives_clearing_the_vec() {
    let mut v: Vec<u8> = Vec::new();
    let mut old = {
        let mut t = VecOutputTarget::from(&mut v);
        t.reserve_space(3).unwrap()
    };
    v.clear();
    let mut t = VecOutputTarget::from(&mut v);
    t.write_bytes_exact(&[1, 2, 3, 4]).unwrap();
    let result = t.write_bytes_into_reserved_exact(&mut old, &[9, 9, 9]);
    drop(t);
    assert_eq!(v, [1, 2, 3, 4], "appended bytes were overwritten (write returned {result:?})");
}
RS
cd "$WORK" && CARGO_TARGET_DIR="$WORK/target" cargo test --offline --test repro -- --test-threads=1
