#!/usr/bin/env bash
# repro-3 (borderline, see FINDINGS.md): a compound Encoder operation (encode(&str), encode(&[T]), dictionaries) that
# does not fit fails with an error but has already appended its size prefix (and leading elements): contents and
# position change although the operation failed.
# usage: run.sh <path-to-slicec-worktree>      exits non-zero when the behaviour is present
set -u
TREE="${1:?usage: run.sh <worktree>}"
TREE="$(cd "$TREE" && pwd)"
WORK="$(mktemp -d "${TMPDIR:-/tmp}/c12-repro3.XXXXXX")"
trap 'rm -rf "$WORK"' EXIT
mkdir -p "$WORK/src" "$WORK/tests"
cat > "$WORK/Cargo.toml" <<TOML
[package]
name = "c12-repro3"
version = "0.0.0"
edition = "2021"
[dependencies]
slice-codec = { path = "$TREE/slice-codec" }
[workspace]
TOML
: > "$WORK/src/lib.rs"
cat > "$WORK/tests/repro.rs" <<'RS'
use slice_codec::buffer::slice::SliceOutputTarget;
use slice_codec::buffer::OutputTarget;
use slice_codec::encoder::Encoder;

#[test]
fn failed_string_encode_leaves_size_prefix_behind() {
    let mut buf = [0xEEu8; 3];
    let mut encoder: Encoder<SliceOutputTarget> = Encoder::from(&mut buf);
    assert!(encoder.encode("hello").is_err()); // 1 + 5 bytes do not fit in 3
    let position = 3 - encoder.remaining();
    drop(encoder);
    assert_eq!((position, buf), (0, [0xEE; 3]), "a failed encode changed position and contents");
}

#[test]
fn failed_sequence_encode_leaves_prefix_and_elements_behind() {
    let mut buf = [0xEEu8; 4];
    let mut encoder: Encoder<SliceOutputTarget> = Encoder::from(&mut buf);
    let seq: &[u16] = &[0x0101, 0x0202, 0x0303];
    assert!(encoder.encode(seq).is_err()); // 1 + 6 bytes do not fit in 4
    let position = 4 - encoder.remaining();
    drop(encoder);
    assert_eq!((position, buf), (0, [0xEE; 4]), "a failed encode changed position and contents");
}
RS
cd "$WORK" && CARGO_TARGET_DIR="$WORK/target" cargo test --offline --test repro -- --test-threads=1
