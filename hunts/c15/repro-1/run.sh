#!/bin/bash
# Finding 1: a member (field / enumerator / operation / parameter) of one file and a definition in a nested
# module of another file share one key in the AST lookup table; the file parsed LAST wins.
. "$(dirname "$0")/../common.sh"

run() { # run <label> args...   -> sets RC, writes $label.err (diagnostics, JSON) and $label.req (request)
    local label=$1; shift
    OUT="$PWD/$label.req" "$BIN" --disable-color --diagnostic-format json -G "$WORK/dumpgen.sh" "$@" \
        > "$label.out" 2> "$label.err"
    RC=$?
}
warnings() { grep '"severity":"warning"' "$1.err" | sort; }

echo "== 1a: acceptance depends on the order of the files (type reference resolves to a field)"
mkdir 1a && cd 1a
printf 'module M::N\nstruct S {}\nstruct T { s: S }\n' > a.slice
printf 'module M\nstruct N { S: bool }\n'               > b.slice
run ab a.slice b.slice; RC_AB=$RC
run ba b.slice a.slice; RC_BA=$RC
echo "   slicec a.slice b.slice -> exit $RC_AB ; slicec b.slice a.slice -> exit $RC_BA"
[ "$RC_AB" = "$RC_BA" ] || { fail "1a: accepted in one order, rejected in the other"; cat ab.err ba.err; }
run s_a_r_b a.slice -R b.slice; RC1=$RC
run s_b_r_a b.slice -R a.slice; RC2=$RC
echo "   slicec a.slice -R b.slice -> exit $RC1 ; slicec b.slice -R a.slice -> exit $RC2"
[ "$RC1" = "$RC2" ] || fail "1a: moving the files between sources and references changes acceptance"
cd ..

echo "== 1b: accepted in both orders, but the warnings and a.slice's compiled content differ (doc link resolves to a parameter)"
mkdir 1b && cd 1b
printf 'module M::I::op\nstruct p {}\n/// See {@link p}.\nstruct Q { q: bool }\n' > a.slice
printf 'module M\ninterface I { op(p: bool) }\n'                                   > b.slice
run ab a.slice b.slice; RC_AB=$RC
run ba b.slice a.slice; RC_BA=$RC
echo "   exit codes: $RC_AB / $RC_BA"
[ "$RC_AB" = 0 ] && [ "$RC_BA" = 0 ] || fail "1b: expected both orders to be accepted ($RC_AB/$RC_BA)"
if [ "$(warnings ab)" != "$(warnings ba)" ]; then
    fail "1b: set of warnings differs between 'a b' and 'b a'"
    echo "   --- a b:"; warnings ab; echo "   --- b a:"; warnings ba
fi
# Same files in the same (source) list: if no file's content changed, the two requests are permutations of the
# same per-file blobs and therefore have the same length.
L1=$(wc -c < ab.req); L2=$(wc -c < ba.req)
echo "   request sizes: $L1 / $L2 ; link encoded as 'M::I::op::p': $(grep -a -c 'M::I::op::p' ab.req) / $(grep -a -c 'M::I::op::p' ba.req)"
[ "$L1" = "$L2" ] || fail "1b: compiled content of a.slice differs (request sizes $L1 vs $L2)"
cd ..

echo "== 1c: accepted in both orders, but an [allow(..)] is honoured in one order only (lint scope resolves to a field)"
mkdir 1c && cd 1c
printf 'module M::N\n[deprecated] struct D {}\n[allow(Deprecated)] struct S { d: D }\n' > a.slice
printf 'module M\nstruct N { S: bool }\n'                                              > b.slice
run ab a.slice b.slice; RC_AB=$RC
run ba b.slice a.slice; RC_BA=$RC
[ "$RC_AB" = 0 ] && [ "$RC_BA" = 0 ] || fail "1c: expected both orders to be accepted ($RC_AB/$RC_BA)"
if [ "$(warnings ab)" != "$(warnings ba)" ]; then
    fail "1c: set of warnings differs between 'a b' and 'b a'"
    echo "   --- a b:"; warnings ab; echo "   --- b a:"; warnings ba
fi
run s_a_r_b a.slice -R b.slice; W1=$(warnings s_a_r_b)
run s_b_r_a b.slice -R a.slice; W2=$(warnings s_b_r_a)
[ "$W1" = "$W2" ] || fail "1c: moving the files between sources and references changes the set of warnings"
cd ..

[ $FAIL = 0 ] && echo "OK: property held" || echo "FAILED"
exit $FAIL
