# Sourced by the repro-*/run.sh scripts.  $1 of the caller = path of the slicec worktree.
set -u
TREE=${1:?usage: run.sh <path-to-slicec-worktree>}
TREE=$(cd "$TREE" && pwd)
BIN="$TREE/target/debug/slicec"
# Always (re)build, so the script tests the tree as it is now; cargo is a no-op when up to date.
( cd "$TREE" && cargo build --offline -q -p slicec ) || { echo "build failed" >&2; exit 2; }
[ -x "$BIN" ] || { echo "no slicec binary at $BIN" >&2; exit 2; }
WORK=$(mktemp -d "${TMPDIR:-/tmp}/c15-repro.XXXXXX")
trap 'rm -rf "$WORK"' EXIT
cd "$WORK"
export RUST_BACKTRACE=0
FAIL=0
fail() { echo "VIOLATION: $*"; FAIL=1; }
# A generator that stores the request it receives in $OUT and answers with an empty, valid reply.
cat > "$WORK/dumpgen.sh" <<'EOG'
#!/bin/sh
cat > "$OUT"
printf '\000\000'
EOG
chmod +x "$WORK/dumpgen.sh"
