#!/bin/bash
# Finding 4 (borderline, documented design): the DuplicateFile lint only looks for duplicates inside the source list
# and inside the reference list; a file that is in both is dropped from the references silently.  So moving a file
# between sources and references changes the set of warnings of an accepted program, and with two spellings of one
# file the order decides which spelling ends up in the warning and in the request.
. "$(dirname "$0")/../common.sh"
w() { grep '"severity":"warning"' "$1" | sort; }

mkdir dir
printf 'module A\nstruct SA {}\n'            > dir/a.slice
printf 'module B\nstruct SB { a: A::SA }\n' > b.slice
OPTS="--dry-run --disable-color --diagnostic-format json"

echo "== 4a: a.slice is also found through the reference directory 'dir'"
"$BIN" $OPTS b.slice dir/a.slice -R dir        > s.out 2> s.err; RC1=$?
"$BIN" $OPTS b.slice -R dir/a.slice -R dir     > r.out 2> r.err; RC2=$?
echo "   slicec b.slice dir/a.slice -R dir    -> exit $RC1, $(w s.err | wc -l) warning(s)"
echo "   slicec b.slice -R dir/a.slice -R dir -> exit $RC2, $(w r.err | wc -l) warning(s)"
[ "$(w s.err)" = "$(w r.err)" ] || { fail "4a: moving dir/a.slice from the sources to the references changes the set of warnings"; w r.err; }

echo "== 4b: b.slice listed twice as a source vs. once as a source and once as a reference"
"$BIN" $OPTS b.slice b.slice dir/a.slice       > s.out 2> s.err
"$BIN" $OPTS b.slice -R b.slice dir/a.slice    > r.out 2> r.err
[ "$(w s.err)" = "$(w r.err)" ] || fail "4b: moving one mention of b.slice to the references changes the set of warnings"

echo "== 4c: two spellings of one file, in both orders"
"$BIN" $OPTS b.slice ./b.slice dir/a.slice     > 1.out 2> 1.err
"$BIN" $OPTS ./b.slice b.slice dir/a.slice     > 2.out 2> 2.err
[ "$(w 1.err)" = "$(w 2.err)" ] || { fail "4c: the order of the two spellings changes the text of the warning"; w 1.err; w 2.err; }

[ $FAIL = 0 ] && echo "OK: property held" || echo "FAILED"
exit $FAIL
