#!/bin/bash
# Finding 3: the outcome of a run depends on a race between slicec writing the request to the generator's stdin and
# the generator process exiting, when the generator does not read (all of) its stdin.
# The generator below is deterministic: it never reads stdin and always answers with a valid, empty reply.
. "$(dirname "$0")/../common.sh"
RUNS=${RUNS:-600}

printf 'module M\nstruct S { a: bool }\n' > a.slice
cat > noread.sh <<'EOG'
#!/bin/sh
printf '\000\000'
EOG
chmod +x noread.sh

# Pin slicec and its child to one CPU when possible: this makes the race frequent (about 1 run in 3 here);
# without pinning it still happens, but only once in a few hundred runs on an idle multi-core machine.
PIN=""
if command -v taskset > /dev/null; then
    CPU=$(awk '/Cpus_allowed_list/ {print $2}' /proc/self/status | sed 's/[-,].*//')
    taskset -c "$CPU" true 2> /dev/null && PIN="taskset -c $CPU"
fi
echo "running up to $RUNS times: $PIN slicec --disable-color -G ./noread.sh a.slice"
: > outcomes
for i in $(seq 1 "$RUNS"); do
    $PIN "$BIN" --disable-color -G ./noread.sh a.slice > out.txt 2> err.txt
    echo "exit=$? stderr=$(head -1 err.txt)" >> outcomes
    if [ $((i % 20)) = 0 ] && [ "$(sort -u outcomes | wc -l)" -gt 1 ]; then break; fi
done
sort outcomes | uniq -c
N=$(sort -u outcomes | wc -l)
[ "$N" = 1 ] || fail "$N different outcomes (exit status and diagnostics) for the same inputs, options and generator"

[ $FAIL = 0 ] && echo "OK: all runs identical (the race was not observed)" || echo "FAILED"
exit $FAIL
