#!/bin/bash
# Finding 2: use-after-free while post-processing the diagnostics of a REJECTED input: the same command line,
# run repeatedly in fresh processes, ends in different ways (panic with exit 101 / SIGSEGV 139) and never prints
# the diagnostics.  With a colliding second file (2b) whether this happens depends on the order of the files.
. "$(dirname "$0")/../common.sh"
RUNS=${RUNS:-40}

echo "== 2a: one file, same command line, $RUNS fresh processes"
mkdir 2a && cd 2a
cat > e.slice <<'EOS'
module M
enum E {
    A(
        /// {@link }
        f: bool
    )
    B(
}
EOS
: > outcomes
for i in $(seq 1 "$RUNS"); do
    "$BIN" --dry-run --disable-color --diagnostic-format json e.slice > out.$i 2> err.$i
    rc=$?
    # The panic message contains the thread id, so only its first line minus the id is compared.
    echo "exit=$rc stderr=$(sed -e 's/([0-9]*)//' err.$i | head -c 300 | md5sum | cut -c1-12)" >> outcomes
done 2>/dev/null
sort outcomes | uniq -c
N=$(sort -u outcomes | wc -l)
[ "$N" = 1 ] || fail "2a: $N different outcomes for the same inputs and options"
grep -q -v '^exit=[01] ' outcomes && fail "2a: slicec crashed instead of reporting its diagnostics (expected exit 1 and a syntax error)"
cd ..

echo "== 2b: two files; the crash depends on the order of the files"
mkdir 2b && cd 2b
printf 'module M::I::op\n/// {@link }\nstruct p {}\n'                      > a.slice
printf 'module M\ninterface I {\n    op(p: bool)\n    op2(q: bool) ->\n}\n' > b.slice
{ "$BIN" --dry-run --disable-color --diagnostic-format json a.slice b.slice > ab.out 2> ab.err; RC_AB=$?; } 2> /dev/null
{ "$BIN" --dry-run --disable-color --diagnostic-format json b.slice a.slice > ba.out 2> ba.err; RC_BA=$?; } 2> /dev/null
echo "   slicec a.slice b.slice -> exit $RC_AB ; slicec b.slice a.slice -> exit $RC_BA"
[ "$RC_AB" = "$RC_BA" ] || fail "2b: exit status depends on the order of the files ($RC_AB vs $RC_BA)"
cd ..

[ $FAIL = 0 ] && echo "OK: property held" || echo "FAILED"
exit $FAIL
