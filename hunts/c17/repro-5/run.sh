#!/bin/bash
# Finding 5: one file reachable through two hard links (or through a bind mount) is compiled twice.
# ---- common preamble ($1 = path of the slicec worktree) ----
set -u
WT=${1:?usage: run.sh <worktree>}
WT=$(cd "$WT" && pwd)
SLICEC=$WT/target/debug/slicec
if [ ! -x "$SLICEC" ]; then
    (cd "$WT" && cargo build --offline -q -p slicec) || { echo "build failed"; exit 99; }
fi
WORK=$(mktemp -d /tmp/seed7/hunt-c17-work/repro.XXXXXX 2>/dev/null || mktemp -d)
chmod 755 "$WORK"
trap 'chmod -R u+rwx "$WORK" 2>/dev/null; rm -rf "$WORK"' EXIT
cd "$WORK"
# A generator that dumps the request it receives into $GEN_OUT and replies with two empty sequences.
cat > "$WORK/gen.sh" <<'EOG'
#!/bin/sh
cat > "$GEN_OUT"
printf '\000\000'
EOG
chmod +x "$WORK/gen.sh"
FAIL=0
violation() { echo "VIOLATION: $*"; FAIL=1; }
ok()        { echo "ok: $*"; }
finish()    { if [ $FAIL -ne 0 ]; then echo "RESULT: property violated"; exit 1; else echo "RESULT: property held"; exit 0; fi; }
# ---- end of preamble ----
mkdir ref
printf 'module A\nstruct X {}\n' > a.slice
ln a.slice b.slice
ln a.slice ref/c.slice
[ "$(stat -c %i a.slice)" = "$(stat -c %i ref/c.slice)" ] && ok "a.slice, b.slice and ref/c.slice are one file (inode $(stat -c %i a.slice))"

out=$("$SLICEC" --dry-run --disable-color a.slice b.slice 2>&1); rc=$?
echo "--- slicec a.slice b.slice : exit $rc"; echo "$out" | head -4
if echo "$out" | grep -q "redefinition of 'X'"; then violation "same file listed twice as source (two hard links): compiled twice, no DuplicateFile warning"; else ok "sources"; fi

out=$("$SLICEC" --dry-run --disable-color a.slice -R ref 2>&1); rc=$?
echo "--- slicec a.slice -R ref : exit $rc"; echo "$out" | head -4
if echo "$out" | grep -q "redefinition of 'X'"; then violation "same file as source and (hard-linked) reference: compiled twice"; else ok "source+reference"; fi
finish
