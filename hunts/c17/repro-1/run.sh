#!/bin/bash
# Finding 1: sources that are neither regular files nor directories (character devices, FIFOs, sockets, and
# symlinks to them) are silently dropped: no I/O error, exit status 0, and the other files ARE parsed.
# ---- common preamble ($1 = path of the slicec worktree) ----
set -u
WT=${1:?usage: run.sh <worktree>}
WT=$(cd "$WT" && pwd)
SLICEC=$WT/target/debug/slicec
if [ ! -x "$SLICEC" ]; then
    (cd "$WT" && cargo build --offline -q -p slicec) || { echo "build failed"; exit 99; }
fi
WORK=$(mktemp -d /tmp/seed7/hunt-c17-work/repro.XXXXXX 2>/dev/null || mktemp -d)
chmod 755 "$WORK"
trap 'chmod -R u+rwx "$WORK" 2>/dev/null; rm -rf "$WORK"' EXIT
cd "$WORK"
# A generator that dumps the request it receives into $GEN_OUT and replies with two empty sequences.
cat > "$WORK/gen.sh" <<'EOG'
#!/bin/sh
cat > "$GEN_OUT"
printf '\000\000'
EOG
chmod +x "$WORK/gen.sh"
FAIL=0
violation() { echo "VIOLATION: $*"; FAIL=1; }
ok()        { echo "ok: $*"; }
finish()    { if [ $FAIL -ne 0 ]; then echo "RESULT: property violated"; exit 1; else echo "RESULT: property held"; exit 0; fi; }
# ---- end of preamble ----

printf 'module Good\nstruct S {}\n' > good.slice
mkfifo fifo.slice
ln -s /dev/null devnull.slice

check() {   # check <label> <args...>
    label=$1; shift
    rm -f req.bin
    out=$(GEN_OUT=$WORK/req.bin timeout 20 "$SLICEC" --disable-color -G "$WORK/gen.sh" "$@" 2>&1); rc=$?
    echo "--- slicec $*  -> exit $rc"; [ -n "$out" ] && echo "$out"
    if [ $rc -eq 0 ] && ! echo "$out" | grep -q 'E001'; then
        if [ -f req.bin ] && grep -aq Good req.bin; then
            violation "$label: no I/O error, exit 0, and good.slice was parsed and sent to the generator"
        else
            violation "$label: no I/O error and exit 0 (source silently dropped)"
        fi
    else
        ok "$label: reported as an error"
    fi
}

# Control: an ordinary file without the extension IS reported.
touch plain.txt
out=$("$SLICEC" --dry-run --disable-color plain.txt good.slice 2>&1); rc=$?
[ $rc -ne 0 ] && ok "control: plain.txt is rejected (exit $rc)" || violation "control failed"

check "/dev/null (a file without the .slice extension)"   /dev/null good.slice
check "FIFO named fifo.slice"                             fifo.slice good.slice
check "symlink devnull.slice -> /dev/null"                devnull.slice good.slice
check "/dev/null alone"                                   /dev/null
finish
