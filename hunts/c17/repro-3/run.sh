#!/bin/bash
# Finding 3: *.slice files below a reference directory whose names are not valid UTF-8.
# The directory walk turns every discovered PathBuf into a String with `path.display().to_string()` (lossy: invalid
# bytes become U+FFFD) and then canonicalizes / reads THAT string.
#  (a) alone: the file exists and is readable, yet slicec reports "No such file or directory" and parses nothing;
#  (b) if another file happens to have the lossy name, the non-UTF-8 file is silently replaced by it: it is never
#      compiled, the other file is "provided more than once" (false DuplicateFile warning), exit status 0.
# ---- common preamble ($1 = path of the slicec worktree) ----
set -u
WT=${1:?usage: run.sh <worktree>}
WT=$(cd "$WT" && pwd)
SLICEC=$WT/target/debug/slicec
if [ ! -x "$SLICEC" ]; then
    (cd "$WT" && cargo build --offline -q -p slicec) || { echo "build failed"; exit 99; }
fi
WORK=$(mktemp -d /tmp/seed7/hunt-c17-work/repro.XXXXXX 2>/dev/null || mktemp -d)
chmod 755 "$WORK"
trap 'chmod -R u+rwx "$WORK" 2>/dev/null; rm -rf "$WORK"' EXIT
cd "$WORK"
# A generator that dumps the request it receives into $GEN_OUT and replies with two empty sequences.
cat > "$WORK/gen.sh" <<'EOG'
#!/bin/sh
cat > "$GEN_OUT"
printf '\000\000'
EOG
chmod +x "$WORK/gen.sh"
FAIL=0
violation() { echo "VIOLATION: $*"; FAIL=1; }
ok()        { echo "ok: $*"; }
finish()    { if [ $FAIL -ne 0 ]; then echo "RESULT: property violated"; exit 1; else echo "RESULT: property held"; exit 0; fi; }
# ---- end of preamble ----

mkdir ref
printf 'module M\nstruct S {}\n' > main.slice
bad=$(printf 'a\377')                 # 'a' + byte 0xFF
twin=$(printf 'a\357\277\275')        # 'a' + U+FFFD
printf 'module NonUtf8\nstruct X {}\n' > "ref/$bad.slice"

out=$("$SLICEC" --dry-run --disable-color main.slice -R ref 2>&1); rc=$?
echo "--- (a) ref/ contains only a<0xFF>.slice : exit $rc"; echo "$out"
if [ $rc -ne 0 ] && echo "$out" | grep -q 'No such file'; then
    violation "(a) an existing, readable *.slice file below the reference directory is reported as nonexistent; nothing is compiled"
else ok "(a)"; fi

printf 'module Twin\nstruct Y {}\n' > "ref/$twin.slice"
rm -f req.bin
out=$(GEN_OUT=$WORK/req.bin "$SLICEC" --disable-color -G "$WORK/gen.sh" main.slice -R ref 2>&1); rc=$?
echo "--- (b) ref/ contains a<0xFF>.slice and a<U+FFFD>.slice : exit $rc"; echo "$out"
n_twin=$(grep -ac 'Twin' req.bin 2>/dev/null); has_bad=$(grep -ac 'NonUtf8' req.bin 2>/dev/null)
echo "request mentions module Twin: ${n_twin:-0} line(s); module NonUtf8: ${has_bad:-0} line(s)"
if [ $rc -eq 0 ] && [ "${has_bad:-0}" = 0 ]; then
    violation "(b) ref/a<0xFF>.slice was silently not compiled (exit 0), and a DuplicateFile warning was issued for a file that was reachable once"
else ok "(b)"; fi
finish
