#!/bin/bash
# Finding 6: a file whose whole name is ".slice" (it matches *.slice and ends with the '.slice' extension text) is
# rejected as a source with the self-contradicting message "Slice files must end with a '.slice' extension" and is
# silently skipped below a reference directory.  (Rust's Path::extension() is None for names that start with their
# only dot.)
# ---- common preamble ($1 = path of the slicec worktree) ----
set -u
WT=${1:?usage: run.sh <worktree>}
WT=$(cd "$WT" && pwd)
SLICEC=$WT/target/debug/slicec
if [ ! -x "$SLICEC" ]; then
    (cd "$WT" && cargo build --offline -q -p slicec) || { echo "build failed"; exit 99; }
fi
WORK=$(mktemp -d /tmp/seed7/hunt-c17-work/repro.XXXXXX 2>/dev/null || mktemp -d)
chmod 755 "$WORK"
trap 'chmod -R u+rwx "$WORK" 2>/dev/null; rm -rf "$WORK"' EXIT
cd "$WORK"
# A generator that dumps the request it receives into $GEN_OUT and replies with two empty sequences.
cat > "$WORK/gen.sh" <<'EOG'
#!/bin/sh
cat > "$GEN_OUT"
printf '\000\000'
EOG
chmod +x "$WORK/gen.sh"
FAIL=0
violation() { echo "VIOLATION: $*"; FAIL=1; }
ok()        { echo "ok: $*"; }
finish()    { if [ $FAIL -ne 0 ]; then echo "RESULT: property violated"; exit 1; else echo "RESULT: property held"; exit 0; fi; }
# ---- end of preamble ----
mkdir ref
printf 'module M\nstruct S {}\n' > main.slice
printf 'module Dotfile\nstruct H {}\n' > ref/.slice
printf 'module Control\nstruct H {}\n' > ref/..slice      # control: this one IS found

rm -f req.bin
out=$(GEN_OUT=$WORK/req.bin "$SLICEC" --disable-color -G "$WORK/gen.sh" main.slice -R ref 2>&1); rc=$?
echo "--- slicec main.slice -R ref : exit $rc"; echo "$out"
grep -aq Control req.bin && ok "control: ref/..slice was compiled"
if grep -aq Dotfile req.bin; then ok "ref/.slice compiled"; else violation "ref/.slice (matches *.slice) below a reference directory was silently skipped"; fi

out=$("$SLICEC" --dry-run --disable-color ref/.slice 2>&1); rc=$?
echo "--- slicec ref/.slice : exit $rc"; echo "$out"
[ $rc -ne 0 ] && violation "source 'ref/.slice' rejected: \"must end with a '.slice' extension\" although it does" || ok "source"
finish
