#!/bin/bash
# Finding 4: a listed file that exists, has the .slice extension and is readable through the path the user gave is
# rejected with an I/O error because file identity is computed with `canonicalize()` (realpath), which can fail
# although open()/read() on the given path work:
#  (a) the absolute path is longer than PATH_MAX (the relative path given is short: depth 3);
#  (b) an ancestor of the current directory is not searchable by the user (needs root to set up; skipped otherwise).
# ---- common preamble ($1 = path of the slicec worktree) ----
set -u
WT=${1:?usage: run.sh <worktree>}
WT=$(cd "$WT" && pwd)
SLICEC=$WT/target/debug/slicec
if [ ! -x "$SLICEC" ]; then
    (cd "$WT" && cargo build --offline -q -p slicec) || { echo "build failed"; exit 99; }
fi
WORK=$(mktemp -d /tmp/seed7/hunt-c17-work/repro.XXXXXX 2>/dev/null || mktemp -d)
chmod 755 "$WORK"
trap 'chmod -R u+rwx "$WORK" 2>/dev/null; rm -rf "$WORK"' EXIT
cd "$WORK"
# A generator that dumps the request it receives into $GEN_OUT and replies with two empty sequences.
cat > "$WORK/gen.sh" <<'EOG'
#!/bin/sh
cat > "$GEN_OUT"
printf '\000\000'
EOG
chmod +x "$WORK/gen.sh"
FAIL=0
violation() { echo "VIOLATION: $*"; FAIL=1; }
ok()        { echo "ok: $*"; }
finish()    { if [ $FAIL -ne 0 ]; then echo "RESULT: property violated"; exit 1; else echo "RESULT: property held"; exit 0; fi; }
# ---- end of preamble ----

# ---- (a) ENAMETOOLONG
n=$(printf 'd%.0s' $(seq 1 200))
mkdir long; cd long
while [ "$(pwd | wc -c)" -lt 3600 ]; do mkdir "$n" && cd "$n"; done
mkdir -p "$n/$n/$n"
printf 'module M\nstruct S {}\n' > "$n/$n/$n/main.slice"
head -1 "$n/$n/$n/main.slice" >/dev/null && ok "(a) the file is readable through the relative path (cat works)"
out=$("$SLICEC" --dry-run --disable-color "$n/$n/$n/main.slice" 2>&1); rc=$?
echo "--- (a) slicec <200 d's>/<200 d's>/<200 d's>/main.slice, cwd is $(pwd | wc -c) bytes deep: exit $rc"
echo "$out" | sed -E 's/d{50,}/<ddd...>/g'
[ $rc -ne 0 ] && violation "(a) readable listed source not compiled: $(echo "$out" | grep -o 'File name too long.*')" || ok "(a) compiled"
out=$("$SLICEC" --dry-run --disable-color -R "$n" 2>&1); rc=$?
[ $rc -ne 0 ] && violation "(a') same through -R <dir>: exit $rc" || ok "(a') compiled"
cd "$WORK"

# ---- (b) EACCES on an ancestor of the cwd
if [ "$(id -u)" = 0 ] && command -v setpriv >/dev/null; then
    U="setpriv --reuid 65534 --regid 65534 --clear-groups"
    mkdir -p priv/work; printf 'module M\nstruct S {}\n' > priv/work/main.slice
    chmod 755 priv/work; chmod 644 priv/work/main.slice; chmod 700 priv
    cd priv/work
    $U head -1 main.slice >/dev/null && ok "(b) uid 65534 can read ./main.slice"
    out=$($U "$SLICEC" --dry-run --disable-color main.slice 2>&1); rc=$?
    echo "--- (b) uid 65534, cwd below a mode-700 directory of root: exit $rc"; echo "$out"
    [ $rc -ne 0 ] && violation "(b) readable listed source not compiled: Permission denied" || ok "(b) compiled"
    cd "$WORK"; chmod 755 priv
else
    echo "(b) skipped: needs root + setpriv"
fi
finish
