#!/bin/bash
# Finding 2: a reference directory that contains a symbolic link to one of its ancestors (or to itself).
# Expected by the property: every file is reachable more than once "through a symbolic link" and is compiled once.
# Actual: the walk follows the link until the kernel returns ELOOP, reports that as an I/O error and parses nothing
# (plus 40 DuplicateFile warnings per file).  With two such links the walk needs 2^40 steps and never finishes.
# ---- common preamble ($1 = path of the slicec worktree) ----
set -u
WT=${1:?usage: run.sh <worktree>}
WT=$(cd "$WT" && pwd)
SLICEC=$WT/target/debug/slicec
if [ ! -x "$SLICEC" ]; then
    (cd "$WT" && cargo build --offline -q -p slicec) || { echo "build failed"; exit 99; }
fi
WORK=$(mktemp -d /tmp/seed7/hunt-c17-work/repro.XXXXXX 2>/dev/null || mktemp -d)
chmod 755 "$WORK"
trap 'chmod -R u+rwx "$WORK" 2>/dev/null; rm -rf "$WORK"' EXIT
cd "$WORK"
# A generator that dumps the request it receives into $GEN_OUT and replies with two empty sequences.
cat > "$WORK/gen.sh" <<'EOG'
#!/bin/sh
cat > "$GEN_OUT"
printf '\000\000'
EOG
chmod +x "$WORK/gen.sh"
FAIL=0
violation() { echo "VIOLATION: $*"; FAIL=1; }
ok()        { echo "ok: $*"; }
finish()    { if [ $FAIL -ne 0 ]; then echo "RESULT: property violated"; exit 1; else echo "RESULT: property held"; exit 0; fi; }
# ---- end of preamble ----

mkdir ref
printf 'module A\nstruct S1 {}\n'          > ref/a.slice
printf 'module B\nstruct S2 { a: A::S1 }\n' > main.slice

out=$("$SLICEC" --dry-run --disable-color main.slice -R ref 2>&1); rc=$?
[ $rc -eq 0 ] && ok "baseline without link compiles (exit 0)" || { echo "$out"; violation "baseline failed"; }

ln -s . ref/self                     # a symlink to a directory, depth 1
rm -f req.bin
out=$(GEN_OUT=$WORK/req.bin timeout 60 "$SLICEC" --disable-color -G "$WORK/gen.sh" main.slice -R ref 2>&1); rc=$?
echo "--- with ref/self -> . : exit $rc"
echo "$out" | grep -v DuplicateFile | sed -E "s#(.{70}).*(.{60})\$#\1 ... \2#"
echo "(DuplicateFile warnings: $(echo "$out" | grep -c DuplicateFile))"
if [ $rc -ne 0 ] || [ ! -f req.bin ] || ! grep -aq S1 req.bin; then
    violation "ref/a.slice and main.slice were not compiled (exit $rc) although both are readable"
else
    ok "compiled once"
fi

rm ref/self; ln -s .. ref/up         # a symlink to the parent directory
out=$(timeout 60 "$SLICEC" --dry-run --disable-color main.slice -R ref 2>&1); rc=$?
echo "--- with ref/up -> .. : exit $rc"; echo "$out" | grep -v DuplicateFile | sed -E "s#(.{70}).*(.{60})\$#\1 ... \2#"
[ $rc -ne 0 ] && violation "ref/up -> .. : compilation failed (exit $rc)" || ok "compiled"

rm ref/up; ln -s . ref/l1; ln -s . ref/l2     # two links: exponential walk
( ulimit -v 4000000; timeout 20 "$SLICEC" --dry-run --disable-color main.slice -R ref >/dev/null 2>&1 ); rc=$?
echo "--- with ref/l1 -> . and ref/l2 -> . : exit $rc (124 = killed by timeout after 20 s)"
[ $rc -ne 0 ] && violation "two self links: slicec did not compile the two files (exit $rc)" || ok "compiled"
finish
