//! Evidence files (/verif/evidence/<id>.json, schema /root/.vp/EVIDENCE.schema.json) and the result protocol.

use serde_json::{json, Value};
use std::path::Path;

pub struct Evidence {
    pub property_id: String,
    pub tier: String,
    pub seed: u64,
    pub coverage: Value,
    pub assumptions: Vec<String>,
    pub wall_s: f64,
    pub violations: u64,
}

impl Evidence {
    pub fn write(&self, verif: &Path) -> Result<(), String> {
        // which tree this run exercised: evidence for another checkout (VERIF_REPO: seeded changes, controls, the
        // pre-fix tree) never lands in <verif>/evidence, which describes /repo only
        let repo = crate::ws::repo_root();
        let git = |args: &[&str]| std::process::Command::new("git").arg("-C").arg(&repo).args(args).output().ok().filter(|o| o.status.success()).map(|o| String::from_utf8_lossy(&o.stdout).trim().to_owned());
        let mut coverage = self.coverage.clone();
        if let Some(map) = coverage.as_object_mut() {
            map.insert(
                "tree_under_test".into(),
                json!({
                    "path": repo.to_string_lossy(),
                    "git_head": git(&["rev-parse", "HEAD"]),
                    "modified_files": git(&["status", "--porcelain", "--untracked-files=no"]).map(|s| s.lines().map(|l| l.to_owned()).collect::<Vec<_>>()),
                }),
            );
        }
        let default_tree = std::env::var("VERIF_REPO").map(|v| v == "/repo").unwrap_or(true);
        let doc = json!({
            "property_id": self.property_id,
            "tier": self.tier,
            "seed": self.seed,
            "level": "exploration",
            "coverage": coverage,
            "assumptions": self.assumptions,
            "wall_s": (self.wall_s * 100.0).round() / 100.0,
            "violations": self.violations,
        });
        let dir = if default_tree { verif.join("evidence") } else { crate::ws::build_root(verif).join("evidence-other-trees") };
        std::fs::create_dir_all(&dir).map_err(|e| e.to_string())?;
        let path = dir.join(format!("{}.json", self.property_id));
        let tmp = dir.join(format!(".{}.json.tmp", self.property_id));
        std::fs::write(&tmp, serde_json::to_vec_pretty(&doc).unwrap()).map_err(|e| e.to_string())?;
        std::fs::rename(&tmp, &path).map_err(|e| e.to_string())
    }
}

/// What a check found, before it is compared with the known-findings file.
#[derive(Clone, Debug)]
pub struct Found {
    pub property: String,
    /// Stable identification of the failing input class / call site / history shape.
    pub signature: String,
    pub what: String,
    pub replay: String,
}
