//! Evidence files (/verif/evidence/<id>.json, schema /root/.vp/EVIDENCE.schema.json) and the result protocol.

use serde_json::{json, Value};
use std::path::Path;

pub struct Evidence {
    pub property_id: String,
    pub tier: String,
    pub seed: u64,
    pub coverage: Value,
    pub assumptions: Vec<String>,
    pub wall_s: f64,
    pub violations: u64,
}

impl Evidence {
    pub fn write(&self, verif: &Path) -> Result<(), String> {
        let doc = json!({
            "property_id": self.property_id,
            "tier": self.tier,
            "seed": self.seed,
            "level": "exploration",
            "coverage": self.coverage,
            "assumptions": self.assumptions,
            "wall_s": (self.wall_s * 100.0).round() / 100.0,
            "violations": self.violations,
        });
        let dir = verif.join("evidence");
        std::fs::create_dir_all(&dir).map_err(|e| e.to_string())?;
        let path = dir.join(format!("{}.json", self.property_id));
        let tmp = dir.join(format!(".{}.json.tmp", self.property_id));
        std::fs::write(&tmp, serde_json::to_vec_pretty(&doc).unwrap()).map_err(|e| e.to_string())?;
        std::fs::rename(&tmp, &path).map_err(|e| e.to_string())
    }
}

/// What a check found, before it is compared with the known-findings file.
#[derive(Clone, Debug)]
pub struct Found {
    pub property: String,
    /// Stable identification of the failing input class / call site / history shape.
    pub signature: String,
    pub what: String,
    pub replay: String,
}
