//! Generates and builds the repository-dependent workspace (simhost + codecsim) for a given repository path.
//!
//! Nothing is copied from the repository except its Cargo.lock: the manifests point at the repository's own source
//! files, so every build picks up the current working tree.

use std::path::{Path, PathBuf};
use std::process::Command;

pub struct Ws {
    pub repo: PathBuf,
    pub verif: PathBuf,
    pub dir: PathBuf,
}

pub fn verif_root() -> PathBuf {
    if let Ok(v) = std::env::var("VERIF_ROOT") {
        return PathBuf::from(v);
    }
    // the binary lives in <verif>/target/static/release/dst
    let exe = std::env::current_exe().unwrap_or_else(|_| PathBuf::from("/verif/target/static/release/dst"));
    exe.ancestors().nth(4).map(|p| p.to_path_buf()).unwrap_or_else(|| PathBuf::from("/verif"))
}

pub fn repo_root() -> PathBuf {
    PathBuf::from(std::env::var("VERIF_REPO").unwrap_or_else(|_| "/repo".to_owned()))
}

/// Build output is not part of the checkout: it lives under VERIF_BUILD_DIR (default <verif>/target).
pub fn build_root(verif: &Path) -> PathBuf {
    match std::env::var("VERIF_BUILD_DIR") {
        Ok(d) => PathBuf::from(d),
        Err(_) => verif.join("target"),
    }
}

fn key_of(repo: &Path) -> String {
    let s = repo.to_string_lossy();
    let clean: String = s.chars().map(|c| if c.is_ascii_alphanumeric() { c } else { '_' }).collect();
    format!("{}_{:08x}", clean.trim_matches('_'), refcodec::util::fnv1a(s.as_bytes()) as u32)
}

fn slicec_dependencies(repo: &Path) -> Result<String, String> {
    let manifest = repo.join("slicec/Cargo.toml");
    let text = std::fs::read_to_string(&manifest).map_err(|e| format!("{}: {e}", manifest.display()))?;
    let mut out = String::new();
    let mut inside = false;
    for line in text.lines() {
        let t = line.trim();
        if t.starts_with('[') {
            inside = t == "[dependencies]";
            continue;
        }
        if inside {
            // path dependencies are relative to the repository's manifest
            let fixed = line.replace("path = \"../", &format!("path = \"{}/", repo.display()));
            out.push_str(&fixed);
            out.push('\n');
        }
    }
    Ok(out)
}

fn write_if_changed(path: &Path, content: &str) -> Result<(), String> {
    if let Ok(old) = std::fs::read_to_string(path) {
        if old == content {
            return Ok(());
        }
    }
    if let Some(p) = path.parent() {
        std::fs::create_dir_all(p).map_err(|e| format!("{}: {e}", p.display()))?;
    }
    std::fs::write(path, content).map_err(|e| format!("{}: {e}", path.display()))
}

impl Ws {
    pub fn generate() -> Result<Ws, String> {
        let verif = verif_root();
        let repo = repo_root();
        if !repo.join("slicec/src/main.rs").exists() {
            return Err(format!("{} does not look like the slicec repository", repo.display()));
        }
        let dir = build_root(&verif).join("gen").join(key_of(&repo));
        let tdir = verif.join("dst/templates");
        let subst = |name: &str| -> Result<String, String> {
            let t = std::fs::read_to_string(tdir.join(name)).map_err(|e| format!("{name}: {e}"))?;
            Ok(t.replace("@REPO@", &repo.to_string_lossy())
                .replace("@VERIF@", &verif.to_string_lossy())
                .replace("@SLICEC_DEPS@", &slicec_dependencies(&repo)?))
        };
        write_if_changed(&dir.join("Cargo.toml"), &subst("ws.Cargo.toml.in")?)?;
        write_if_changed(&dir.join("codecsim/Cargo.toml"), &subst("codecsim.Cargo.toml.in")?)?;
        write_if_changed(&dir.join("codecsim/src/main.rs"), &subst("codecsim.main.rs.in")?)?;
        write_if_changed(&dir.join("simhost/Cargo.toml"), &subst("simhost.Cargo.toml.in")?)?;
        write_if_changed(&dir.join(".cargo/config.toml"), "[net]\noffline = true\n")?;
        // Start from the repository's lock file so that every version is one the offline cache holds.
        let lock = dir.join("Cargo.lock");
        if !lock.exists() {
            // (the repository ignores its Cargo.lock, so a fresh worktree has none: fall back to the committed copy)
            let from = if repo.join("Cargo.lock").exists() { repo.join("Cargo.lock") } else { tdir.join("repo.Cargo.lock") };
            std::fs::copy(&from, &lock).map_err(|e| format!("{}: {e}", from.display()))?;
        }
        Ok(Ws { repo, verif, dir })
    }

    pub fn target_dir(&self) -> PathBuf {
        self.dir.join("target")
    }

    pub fn bin(&self, name: &str) -> PathBuf {
        self.target_dir().join("release").join(name)
    }

    /// `cargo build --release -p <pkg>`; a failure is a harness error (the caller exits 2).
    pub fn build(&self, packages: &[&str]) -> Result<(), String> {
        let mut cmd = Command::new("cargo");
        cmd.arg("build").arg("--offline").arg("--release").current_dir(&self.dir);
        for p in packages {
            cmd.arg("-p").arg(p);
        }
        cmd.env("CARGO_NET_OFFLINE", "true").env("CARGO_TARGET_DIR", self.target_dir());
        cmd.env_remove("RUSTFLAGS");
        let out = cmd.output().map_err(|e| format!("cannot run cargo: {e}"))?;
        if !out.status.success() {
            return Err(format!(
                "building {:?} against {} failed:\n{}",
                packages,
                self.repo.display(),
                String::from_utf8_lossy(&out.stderr)
            ));
        }
        Ok(())
    }
}
