//! The driver of the simhost-based checks (C07, C15, C17, C18): seeded search over scenarios on worker threads,
//! determinism audit, minimisation, replay, evidence.

use crate::evidence::{Evidence, Found};
use crate::hostcase::Violation;
use crate::simrun::*;
use crate::ws::Ws;
use crate::Opts;
use refcodec::util::{Fnv, Rng};
use serde::{Deserialize, Serialize};
use serde_json::{json, Value};
use simproto::*;
use std::collections::{BTreeMap, BTreeSet};
use std::sync::atomic::{AtomicBool, AtomicU64, Ordering};
use std::sync::Mutex;
use std::time::{Duration, Instant};

/// One unit of exploration: one scenario, or several related ones (C15 compares executions).
#[derive(Clone, Debug, Serialize, Deserialize, PartialEq)]
pub struct Case {
    pub scenarios: Vec<Scenario>,
    /// C15: how scenario i (i >= 1) must relate to scenario 0: "identical" | "equivalent"
    #[serde(default)]
    pub relations: Vec<String>,
}

impl Case {
    pub fn single(s: Scenario) -> Case {
        Case { scenarios: vec![s], relations: vec![] }
    }
}

#[derive(Default)]
pub struct Outcome {
    pub violations: Vec<Violation>,
    pub probes: Vec<&'static str>,
    pub runs: u64,
    pub steps: u64,
    pub signature: u64,
    pub nontrivial: bool,
    pub faults: BTreeMap<String, u64>,
    /// digest of everything observable, for the determinism audit
    pub digest: u64,
    pub last_choices: Vec<u64>,
    pub stats: BTreeMap<String, u64>,
}

pub trait Property: Sync {
    fn id(&self) -> &'static str;
    fn generate(&self, rng: &mut Rng, index: u64, tier: &str) -> Case;
    fn evaluate(&self, exec: &Executor, case: &Case) -> Result<Outcome, String>;
    fn extra_shrinks(&self, _case: &Case) -> Vec<Case> {
        Vec::new()
    }
    fn rule(&self) -> String;
    fn components(&self) -> Value;
    /// Rare conditions the workload is meant to reach; one that stays at zero is reported in the evidence and
    /// printed as a warning (a reason to change the workload, not something to hide).
    fn expected_probes(&self) -> Vec<&'static str> {
        Vec::new()
    }
    /// Additional machinery-level evidence gathered once per check run (e.g. stub conformance for C18).
    fn extra_evidence(&self, _ws: &Ws, _exec: &Executor, _opts: &Opts) -> Result<Option<(String, Value)>, String> {
        Ok(None)
    }
}

/// What a trace contributes to the evidence: interleaving signature, faults that actually fired, blocking events.
pub fn trace_facts(r: &RunResult, o: &mut Outcome) {
    let mut sig = Fnv(o.signature ^ 0x9E37);
    let mut blocking = false;
    let mut bump = |o: &mut Outcome, k: &str| {
        *o.faults.entry(k.to_owned()).or_default() += 1;
    };
    for e in &r.trace {
        match &e.kind {
            Ev::Spawn { result, .. } => {
                sig.update(&[1, (*result < 0) as u8]);
                if *result < 0 {
                    bump(o, &format!("spawn errno {}", -result));
                }
            }
            Ev::StdinWrite { gen, result, fault, .. } => {
                sig.update(&[2, *gen as u8, (*result < 0) as u8, (fault == "short") as u8]);
                if *result == -(libc::EPIPE as i64) {
                    bump(o, "EPIPE on generator stdin");
                }
                if fault == "short" {
                    bump(o, "short write on generator stdin");
                }
                if fault == "eintr" {
                    bump(o, "EINTR on generator stdin");
                }
            }
            Ev::Blocked { gen, op } => {
                blocking = true;
                sig.update(&[3, *gen as u8]);
                sig.update(op.as_bytes());
                bump(o, &format!("compiler blocked: {op}"));
            }
            Ev::Gen { gen, what } => {
                sig.update(&[4, *gen as u8]);
                sig.update(what.split(':').next().unwrap_or("").as_bytes());
                if what == "sigpipe" {
                    bump(o, "generator killed by SIGPIPE");
                }
                if what.starts_with("request-undecodable") {
                    bump(o, "generator could not decode its request");
                }
            }
            Ev::GenExit { gen, status, pending_stdin } => {
                sig.update(&[5, *gen as u8, (*status != 0) as u8, (*pending_stdin > 0) as u8]);
                if *status & 0x7f != 0 {
                    bump(o, &format!("generator killed by signal {}", status & 0x7f));
                } else if *status != 0 {
                    bump(o, "generator exit code != 0");
                }
            }
            Ev::Wait { gen, result, stderr_len, .. } => {
                sig.update(&[6, *gen as u8, (*result != 0) as u8, (*stderr_len > 0) as u8]);
                if *result != 0 {
                    bump(o, "collecting output failed with an OS error");
                }
                if *stderr_len > 0 {
                    bump(o, "generator wrote to stderr");
                }
            }
            Ev::Fs { op, fault, result, .. } => {
                sig.update(&[7, (*result < 0) as u8]);
                sig.update(op.as_bytes());
                sig.update(fault.as_bytes());
                if !fault.is_empty() {
                    bump(o, &format!("libc {op}: {fault}"));
                }
            }
            Ev::Choice { value, .. } => o.last_choices.push(*value),
            Ev::Hang { .. } => sig.update(&[8]),
            _ => {}
        }
    }
    o.signature = sig.0;
    o.nontrivial |= blocking || !o.faults.is_empty();
    o.steps += steps_of(&r.trace);
}

pub fn observable_digest(r: &RunResult) -> u64 {
    if threads_seen(&r.trace) {
        // A compiler with threads of its own interleaves its seam calls as the OS pleases: executions are compared
        // by verdict only. 0 = "do not compare" (see the determinism audit and the replay confirmation).
        return 0;
    }
    let mut f = Fnv::default();
    f.update_u64(r.trace_digest);
    f.update(String::from_utf8_lossy(&r.stdout).replace(&r.root, "@ROOT@").as_bytes());
    // a panic message carries the OS thread id ("thread 'main' (12345) panicked"): not part of the behaviour
    let stderr = String::from_utf8_lossy(&r.stderr).replace(&r.root, "@ROOT@");
    let mut cleaned = String::with_capacity(stderr.len());
    for line in stderr.lines() {
        if line.starts_with("thread '") && line.contains(") panicked") {
            let head = line.split(" (").next().unwrap_or("");
            let tail = line.split(") panicked").nth(1).unwrap_or("");
            cleaned.push_str(head);
            cleaned.push_str(" panicked");
            cleaned.push_str(tail);
        } else if line.starts_with("thread '") && line.contains(") has overflowed its stack") {
            // same for the runtime's stack-overflow message
            cleaned.push_str(line.split(" (").next().unwrap_or(""));
            cleaned.push_str(" has overflowed its stack");
        } else {
            cleaned.push_str(line);
        }
        cleaned.push('\n');
    }
    f.update(cleaned.as_bytes());
    f.update(format!("{:?}", r.exit).as_bytes());
    for (p, n) in &r.after {
        f.update(p.as_bytes());
        f.update(&n.content);
        f.update(format!("{:?}{}", n.kind, n.mode).as_bytes());
    }
    f.0
}

// ------------------------------------------------------------------------------------------------------------------
// Shrinking
// ------------------------------------------------------------------------------------------------------------------

fn remove_generator(s: &Scenario, idx: usize) -> Option<Scenario> {
    let mut meta = s.meta.clone();
    let gens = meta.get_mut("generators")?.as_array_mut()?;
    if idx >= gens.len() {
        return None;
    }
    let path = gens[idx]["path"].as_str()?.to_owned();
    // which occurrence of this path is it
    let occ = gens[..idx].iter().filter(|g| g["path"].as_str() == Some(&path)).count();
    gens.remove(idx);
    let mut out = s.clone();
    out.meta = meta;
    // the idx-th -G/--generator pair in argv
    let mut seen = 0;
    let mut i = 0;
    while i + 1 < out.argv.len() {
        if out.argv[i] == "-G" || out.argv[i] == "--generator" {
            if seen == idx {
                out.argv.drain(i..i + 2);
                break;
            }
            seen += 1;
            i += 2;
        } else {
            i += 1;
        }
    }
    if let Some(v) = out.sim.generators.get_mut(&path) {
        if occ < v.len() {
            v.remove(occ);
        }
        if v.is_empty() {
            out.sim.generators.remove(&path);
        }
    }
    Some(out)
}

pub fn shrink_scenario(s: &Scenario) -> Vec<Scenario> {
    let mut out = shrink_scenario_unfiltered(s);
    // never leave the property's catalogue: every generator still respects the pipe protocol
    out.retain(|c| c.sim.generators.values().flatten().all(crate::gens::respects_protocol));
    out
}

fn shrink_scenario_unfiltered(s: &Scenario) -> Vec<Scenario> {
    let mut out = Vec::new();
    let n_gens = s.meta.get("generators").and_then(|g| g.as_array()).map(|a| a.len()).unwrap_or(0);
    for i in 0..n_gens {
        if let Some(c) = remove_generator(s, i) {
            out.push(c);
        }
    }
    if !s.sim.fs_faults.is_empty() {
        for i in 0..s.sim.fs_faults.len() {
            let mut c = s.clone();
            c.sim.fs_faults.remove(i);
            out.push(c);
        }
    }
    if s.sim.buggify != Buggify::default() {
        let mut c = s.clone();
        c.sim.buggify = Buggify::default();
        out.push(c);
    }
    if s.sim.sched != Sched::CompilerFirst {
        let mut c = s.clone();
        c.sim.sched = Sched::CompilerFirst;
        out.push(c);
    }
    if s.sim.heap_shift != 0 {
        let mut c = s.clone();
        c.sim.heap_shift = 0;
        out.push(c);
    }
    // simpler generators
    for (path, list) in &s.sim.generators {
        for (k, g) in list.iter().enumerate() {
            if g.stdin_cap != 65536 || g.stdout_cap != 65536 || g.stderr_cap != 65536 {
                let mut c = s.clone();
                let t = &mut c.sim.generators.get_mut(path).unwrap()[k];
                t.stdin_cap = 65536;
                t.stdout_cap = 65536;
                t.stderr_cap = 65536;
                out.push(c);
            }
            let simplest = vec![ScriptOp::ReadToEof, ScriptOp::Write { fd: 1, hex: "0000".into() }, ScriptOp::Exit { code: 0 }];
            if g.spawn_errno.is_some() || g.collect_errno.is_some() || g.script != simplest {
                let mut c = s.clone();
                let t = &mut c.sim.generators.get_mut(path).unwrap()[k];
                t.script = simplest.clone();
                t.spawn_errno = None;
                t.collect_errno = None;
                t.label = "ok/0files (shrunk)".into();
                out.push(c);
            }
            for op_i in 0..g.script.len() {
                let mut c = s.clone();
                c.sim.generators.get_mut(path).unwrap()[k].script.remove(op_i);
                out.push(c);
            }
            for (op_i, op) in g.script.iter().enumerate() {
                // smaller payloads
                let smaller = match op {
                    ScriptOp::Write { fd, hex } if hex.len() > 8 => Some(ScriptOp::Write { fd: *fd, hex: hex[..(hex.len() / 4) * 2].to_owned() }),
                    ScriptOp::WriteFill { fd, n, byte } if *n > 1 => Some(ScriptOp::WriteFill { fd: *fd, n: n / 2, byte: *byte }),
                    ScriptOp::ReadExact { n } if *n > 1 => Some(ScriptOp::ReadExact { n: n / 2 }),
                    ScriptOp::ReadRequest => Some(ScriptOp::ReadToEof),
                    _ => None,
                };
                if let Some(sm) = smaller {
                    let mut c = s.clone();
                    c.sim.generators.get_mut(path).unwrap()[k].script[op_i] = sm;
                    out.push(c);
                }
            }
        }
    }
    // world entries that no argument names directly (pre-existing output files, stray directories)
    for i in (0..s.world.entries.len()).rev() {
        let p = &s.world.entries[i].path;
        let named = s.argv.iter().any(|a| a == p || a.ends_with(&format!("/{p}")));
        let has_children = s.world.entries.iter().any(|e| e.path.starts_with(&format!("{p}/")));
        if !named && !has_children {
            let mut c = s.clone();
            c.world.entries.remove(i);
            out.push(c);
        }
    }
    // options that may be irrelevant
    for flag in ["--disable-color", "--dry-run"] {
        if let Some(i) = s.argv.iter().position(|a| a == flag) {
            let mut c = s.clone();
            c.argv.remove(i);
            if flag == "--dry-run" {
                c.meta["dry_run"] = json!(false);
            }
            out.push(c);
        }
    }
    if !s.sim.choices.is_empty() {
        let mut c = s.clone();
        c.sim.choices.truncate(s.sim.choices.len() / 2);
        out.push(c);
        for i in 0..s.sim.choices.len().min(48) {
            if s.sim.choices[i] != 0 {
                let mut c = s.clone();
                c.sim.choices[i] = 0;
                out.push(c);
            }
        }
    }
    out
}

fn classes_of(o: &Outcome) -> BTreeSet<String> {
    o.violations.iter().map(|v| v.class.clone()).collect()
}

pub fn minimise(prop: &dyn Property, exec: &Executor, case: Case, class: &str, budget: Duration) -> (Case, String) {
    let deadline = Instant::now() + budget;
    let mut best = case;
    let mut detail = String::new();
    // make the choices explicit first, so that they can be shrunk like everything else
    if best.scenarios.len() == 1 {
        if let Ok(o) = prop.evaluate(exec, &best) {
            if classes_of(&o).contains(class) {
                let mut c = best.clone();
                c.scenarios[0].sim.choices = o.last_choices.clone();
                if let Ok(o2) = prop.evaluate(exec, &c) {
                    if classes_of(&o2).contains(class) {
                        best = c;
                    }
                }
            }
        }
    }
    'outer: loop {
        let mut cands: Vec<Case> = prop.extra_shrinks(&best);
        if best.scenarios.len() == 1 {
            cands.extend(shrink_scenario(&best.scenarios[0]).into_iter().map(Case::single));
        }
        for c in cands {
            if Instant::now() > deadline {
                break 'outer;
            }
            if let Ok(o) = prop.evaluate(exec, &c) {
                if let Some(v) = o.violations.iter().find(|v| v.class == class) {
                    detail = v.detail.clone();
                    best = c;
                    continue 'outer;
                }
            }
        }
        break;
    }
    if detail.is_empty() {
        if let Ok(o) = prop.evaluate(exec, &best) {
            if let Some(v) = o.violations.iter().find(|v| v.class == class) {
                detail = v.detail.clone();
            }
        }
    }
    (best, detail)
}

// ------------------------------------------------------------------------------------------------------------------
// Run
// ------------------------------------------------------------------------------------------------------------------

#[derive(Default)]
struct Agg {
    cases: u64,
    runs: u64,
    steps: u64,
    max_steps: u64,
    nontrivial_sigs: BTreeSet<u64>,
    all_sigs: BTreeSet<u64>,
    faults: BTreeMap<String, u64>,
    probes: BTreeMap<String, u64>,
    stats: BTreeMap<String, u64>,
    samples: Vec<Value>,
    audits: u64,
}

fn sample_of(case: &Case) -> Value {
    let s = &case.scenarios[0];
    json!({
        "note": s.note,
        "argv": s.argv,
        "world_entries": s.world.entries.iter().map(|e| format!("{}{}", e.path, match &e.kind { EntryKind::Dir => "/".to_owned(), EntryKind::Symlink{target} => format!(" -> {target}"), _ => String::new() })).collect::<Vec<_>>(),
        "generators": s.sim.generators.iter().map(|(p, g)| json!({"path": p, "behaviours": g.iter().map(|x| json!({"label": x.label, "script_ops": x.script.len(), "caps": [x.stdin_cap, x.stdout_cap, x.stderr_cap]})).collect::<Vec<_>>() })).collect::<Vec<_>>(),
        "sched": format!("{:?}", s.sim.sched),
        "buggify": s.sim.buggify,
        "fs_faults": s.sim.fs_faults,
        "scenarios_in_case": case.scenarios.len(),
        "relations": case.relations,
    })
}

pub fn replay(ws: &Ws, prop: &dyn Property, file: &str) -> Result<i32, String> {
    ws.build(&["simhost"])?;
    let exec = Executor::new(&ws.bin("simhost"), &format!("replay-{}", prop.id()))?;
    let doc: Value = serde_json::from_slice(&std::fs::read(file).map_err(|e| format!("{file}: {e}"))?).map_err(|e| format!("{file}: {e}"))?;
    let case: Case = serde_json::from_value(doc.get("case").cloned().unwrap_or(doc.clone())).map_err(|e| format!("{file}: {e}"))?;
    let o = prop.evaluate(&exec, &case)?;
    if o.violations.is_empty() {
        println!("HOLDS (replay of {file})");
        return Ok(0);
    }
    for v in &o.violations {
        println!("CLASS {}", v.class);
        println!("DETAIL {}", v.detail.replace('\n', " "));
    }
    println!("VIOLATION property={} replay={}", prop.id(), file);
    Ok(1)
}

pub fn run(ws: &Ws, prop: &dyn Property, opts: &Opts) -> Result<i32, String> {
    ws.build(&["simhost"])?;
    // the time box covers the search only: rebuilding an edited repository must not eat into it
    let start = Instant::now();
    if !is_root() {
        eprintln!("note: not running as root; permission-based worlds rely on the invoking user's own permissions");
    }
    let exec = Executor::new(&ws.bin("simhost"), &prop.id().to_lowercase())?;
    let budget = Duration::from_secs(opts.budget_s.unwrap_or(if opts.tier == "quick" { 40 } else { 600 }));
    let max_cases: u64 = std::env::var("VERIF_MAX_CASES").ok().and_then(|s| s.parse().ok()).unwrap_or(u64::MAX);
    let next = AtomicU64::new(0);
    let stop = AtomicBool::new(false);
    let agg = Mutex::new(Agg::default());
    let violations: Mutex<Vec<(u64, Case, Violation)>> = Mutex::new(Vec::new());
    let harness_errors: Mutex<Vec<String>> = Mutex::new(Vec::new());
    let seed = opts.seed;
    let only_case: Option<u64> = std::env::var("VERIF_ONLY_CASE").ok().and_then(|s| s.parse().ok());

    std::thread::scope(|scope| {
        for _ in 0..opts.workers {
            scope.spawn(|| {
                let mut local = Agg::default();
                loop {
                    if stop.load(Ordering::Relaxed) || start.elapsed() > budget {
                        break;
                    }
                    let index = next.fetch_add(1, Ordering::Relaxed);
                    if index >= max_cases {
                        break;
                    }
                    if let Some(only) = only_case {
                        // debugging aid (VERIF_ONLY_CASE=n): evaluate that one case, twice, and say how long it took
                        if index != only {
                            continue;
                        }
                    }
                    let mut rng = Rng::derive(seed, prop.id(), index);
                    let mut case = prop.generate(&mut rng, index, &opts.tier);
                    vary_option_spellings(&mut case, &mut Rng::derive(seed ^ 0x5be1_1196, prop.id(), index));
                    let t_case = Instant::now();
                    let o = match prop.evaluate(&exec, &case) {
                        Ok(o) => {
                            if only_case.is_some() {
                                println!("case {index}: {} executions, {} steps, {:.1} s, digest {:016x}, note {}", o.runs, o.steps, t_case.elapsed().as_secs_f64(), o.digest, case.scenarios[0].note);
                                if let Ok(o2) = prop.evaluate(&exec, &case) {
                                    println!("case {index} again: digest {:016x}", o2.digest);
                                }
                            }
                            o
                        }
                        Err(e) => {
                            harness_errors.lock().unwrap().push(format!("case {index}: {e}"));
                            stop.store(true, Ordering::Relaxed);
                            break;
                        }
                    };
                    local.cases += 1;
                    local.runs += o.runs;
                    local.steps += o.steps;
                    local.max_steps = local.max_steps.max(o.steps / o.runs.max(1));
                    local.all_sigs.insert(o.signature);
                    if o.nontrivial {
                        local.nontrivial_sigs.insert(o.signature);
                    }
                    for (k, n) in &o.faults {
                        *local.faults.entry(k.clone()).or_default() += n;
                    }
                    for p in &o.probes {
                        *local.probes.entry((*p).to_owned()).or_default() += 1;
                    }
                    for (k, n) in &o.stats {
                        *local.stats.entry(k.clone()).or_default() += n;
                    }
                    if local.samples.len() < 2 && (index % 7 == 3 || o.nontrivial) {
                        local.samples.push(sample_of(&case));
                    }
                    // determinism audit on a sample: the same case again must give the same digest
                    if index % 100 == 17 {
                        match prop.evaluate(&exec, &case) {
                            Ok(o2) => {
                                local.audits += 1;
                                if o2.digest != o.digest && o2.digest != 0 && o.digest != 0 {
                                    harness_errors.lock().unwrap().push(format!("determinism audit: case {index} gave two different executions"));
                                    let _ = std::fs::write(ws.verif.join("replays").join(format!("{}-nondeterministic-{index}.json", prop.id())), serde_json::to_vec_pretty(&json!({"case": case})).unwrap());
                                    stop.store(true, Ordering::Relaxed);
                                }
                            }
                            Err(e) => harness_errors.lock().unwrap().push(e),
                        }
                    }
                    if !o.violations.is_empty() {
                        let mut vs = violations.lock().unwrap();
                        for v in o.violations {
                            if vs.len() < 400 {
                                vs.push((index, case.clone(), v));
                            }
                        }
                    }
                }
                let mut a = agg.lock().unwrap();
                a.cases += local.cases;
                a.runs += local.runs;
                a.steps += local.steps;
                a.max_steps = a.max_steps.max(local.max_steps);
                a.all_sigs.extend(local.all_sigs);
                a.nontrivial_sigs.extend(local.nontrivial_sigs);
                a.audits += local.audits;
                for (k, n) in local.faults {
                    *a.faults.entry(k).or_default() += n;
                }
                for (k, n) in local.probes {
                    *a.probes.entry(k).or_default() += n;
                }
                for (k, n) in local.stats {
                    *a.stats.entry(k).or_default() += n;
                }
                if a.samples.len() < 4 {
                    a.samples.extend(local.samples);
                }
            });
        }
    });
    let _ = std::fs::create_dir_all(ws.verif.join("replays"));
    let herr = harness_errors.into_inner().unwrap();
    if !herr.is_empty() {
        return Err(herr.join("; "));
    }
    let agg = agg.into_inner().unwrap();
    let search_wall = start.elapsed().as_secs_f64();

    // ---- violations: one representative per class (lowest case index), minimised, confirmed by replay
    let mut vs = violations.into_inner().unwrap();
    vs.sort_by_key(|(i, _, _)| *i);
    let mut by_class: BTreeMap<String, (u64, Case, Violation, u64)> = BTreeMap::new();
    for (i, c, v) in vs {
        by_class.entry(v.class.clone()).and_modify(|e| e.3 += 1).or_insert((i, c, v, 1));
    }
    let mut found = Vec::new();
    let per_class_budget = Duration::from_secs(if by_class.len() > 6 { 20 } else { 45 });
    for (class, (index, case, viol, count)) in by_class.iter().take(16) {
        let (min_case, detail) = minimise(prop, &exec, case.clone(), class, per_class_budget);
        // the minimised case must reproduce twice more, identically, in fresh processes
        let mut digests = Vec::new();
        let mut ok = true;
        for _ in 0..2 {
            let o = prop.evaluate(&exec, &min_case)?;
            ok &= o.violations.iter().any(|v| &v.class == class);
            digests.push(o.digest);
        }
        // A compiler under test that runs threads of its own (digest 0) interleaves them as the OS pleases: the
        // simulator observes those threads but does not schedule them. A violation seen there may need several
        // replays to show again; it is reported with the rate at which it did, never silently dropped, and it is a
        // harness error only if it never shows again.
        let mut intermittent: Option<(Case, usize, usize)> = None;
        if !ok && digests.iter().all(|d| *d == 0) {
            for candidate in [&min_case, case] {
                let (mut hits, tries) = (0usize, 12usize);
                for _ in 0..tries {
                    let o = prop.evaluate(&exec, candidate)?;
                    if o.digest != 0 {
                        break;
                    }
                    if o.violations.iter().any(|v| &v.class == class) {
                        hits += 1;
                    }
                }
                if hits > 0 {
                    intermittent = Some((candidate.clone(), hits, tries));
                    break;
                }
            }
        }
        let (min_case, detail) = match &intermittent {
            Some((c, hits, tries)) => (c.clone(), format!("{} [shown again in {hits} of {tries} replays: the compiler under test runs threads of its own, which the simulator observes but does not schedule]", if detail.is_empty() { viol.detail.clone() } else { detail.clone() })),
            None => (min_case, detail),
        };
        if intermittent.is_none() && (!ok || (digests[0] != digests[1] && digests[0] != 0 && digests[1] != 0)) {
            let path = ws.verif.join("replays").join(format!("{}-unreproducible-{index}.json", prop.id()));
            let _ = std::fs::write(&path, serde_json::to_vec_pretty(&json!({"class": class, "detail": viol.detail, "case": case, "minimised": min_case})).unwrap());
            return Err(format!("candidate violation '{class}' (case {index}: {}) does not replay deterministically after minimisation; kept as {}", viol.detail, path.display()));
        }
        let doc = json!({
            "property": prop.id(),
            "class": class,
            "detail": if detail.is_empty() { viol.detail.clone() } else { detail.clone() },
            "seed": opts.seed,
            "case_index": index,
            "occurrences_in_this_run": count,
            "how_to_replay": format!("./check {} --replay <this file>", prop.id()),
            "case": min_case,
        });
        let text = serde_json::to_string_pretty(&doc).unwrap();
        let path = ws.verif.join("replays").join(format!("{}-{:016x}.json", prop.id(), refcodec::util::fnv1a(format!("{class}{}", serde_json::to_string(&min_case).unwrap()).as_bytes())));
        std::fs::write(&path, text).map_err(|e| e.to_string())?;
        found.push(Found { property: prop.id().to_owned(), signature: class.clone(), what: if detail.is_empty() { viol.detail.clone() } else { detail }, replay: path.to_string_lossy().into_owned() });
    }
    let known = crate::findings::load(&ws.verif)?;
    let unknown = crate::findings::report(prop.id(), &found, &known);

    let extra = prop.extra_evidence(ws, &exec, opts)?;
    let wall = start.elapsed().as_secs_f64();
    let zero_probes: Vec<String> = prop.expected_probes().into_iter().filter(|p| !agg.probes.contains_key(*p) && !agg.faults.contains_key(*p)).map(|p| p.to_owned()).collect();
    for p in &zero_probes {
        println!("note: probe never hit in this run: {p}");
    }
    let mut coverage = json!({
        "evaluations": agg.runs,
        "cases": agg.cases,
        "distinct_nontrivial": agg.nontrivial_sigs.len(),
        "distinct_interleavings": agg.all_sigs.len(),
        "rule": prop.rule(),
        "samples": agg.samples,
        "exhaustive": false,
        "runs_per_hour": if search_wall > 0.0 { (agg.runs as f64 / search_wall * 3600.0) as u64 } else { 0 },
        "seeds": format!("VERIF_SEED={} ; case n uses the stream derive(seed, \"{}\", n), n = 0..{}", opts.seed, prop.id(), agg.cases),
        "simulated_time_steps": agg.steps,
        "longest_run_steps": agg.max_steps,
        "step_budget_per_run": 200000,
        "faults_fired": agg.faults,
        "probes_hit": agg.probes,
        "probes_at_zero": zero_probes,
        "stats": agg.stats,
        "determinism_audits_passed": agg.audits,
        "components": prop.components(),
        "violations_found": found.len(),
        "violations_not_in_known_findings": unknown,
        "workers": opts.workers,
    });
    if let Some((k, v)) = extra {
        coverage[k] = v;
    }
    Evidence {
        property_id: prop.id().to_owned(),
        tier: opts.tier.clone(),
        seed: opts.seed,
        coverage,
        assumptions: vec![
            "the process world (pipes, exit statuses, signals, spawn errors) is a model: simulated generators behind a std::process seam; std's own Command/wait_with_output implementation is replaced and therefore not exercised".into(),
            "file system = real kernel tmpfs in a per-run hermetic directory, accessed as uid 65534; libc entry points interposed for fault injection".into(),
            "rustc/cargo/std, refcodec and the reference models are trusted; template class labels are checked by `./check selftest`".into(),
            "sampling: a clean batch is evidence, not proof".into(),
        ],
        wall_s: wall,
        violations: unknown,
    }
    .write(&ws.verif)?;
    println!(
        "{} [{}] seed={} cases={} runs={} distinct_nontrivial={} steps={} violations={} known={} wall={:.1}s",
        prop.id(),
        opts.tier,
        opts.seed,
        agg.cases,
        agg.runs,
        agg.nontrivial_sigs.len(),
        agg.steps,
        unknown,
        found.len() as u64 - unknown,
        wall
    );
    Ok(if unknown > 0 { 1 } else { 0 })
}

/// Every option has a short and a long spelling, and enumerated values ignore case: one spelling per option and per
/// case (all scenarios of a case are spelled alike, so differential relations compare like with like).
pub fn vary_option_spellings(case: &mut Case, rng: &mut Rng) {
    let long_g = rng.chance(1, 3);
    let long_o = rng.chance(1, 3);
    let json = *rng.pick(&["json", "json", "JSON", "Json"]);
    for s in case.scenarios.iter_mut() {
        let mut i = 0;
        while i < s.argv.len() {
            let next_is_value = i + 1 < s.argv.len();
            match s.argv[i].as_str() {
                "-G" if long_g && next_is_value => s.argv[i] = "--generator".into(),
                "-O" if long_o && next_is_value => s.argv[i] = "--output-dir".into(),
                "--diagnostic-format" if next_is_value && s.argv[i + 1] == "json" => s.argv[i + 1] = json.into(),
                _ => {}
            }
            // option values are never rewritten
            i += if matches!(s.argv[i].as_str(), "-G" | "--generator" | "-O" | "--output-dir" | "-R" | "-D" | "-A" | "--allow" | "--diagnostic-format") { 2 } else { 1 };
        }
    }
}
