//! Executes one scenario: builds the hermetic world, starts `simhost` in a fresh process (unprivileged, ASLR off,
//! cleared environment), collects exit status, streams, trace and the final state of the world.

use serde::{Deserialize, Serialize};
use simproto::*;
use std::collections::BTreeMap;
use std::ffi::CString;
use std::os::unix::ffi::OsStrExt;
use std::os::unix::fs::{MetadataExt, PermissionsExt};
use std::os::unix::process::{CommandExt, ExitStatusExt};
use std::path::{Path, PathBuf};
use std::process::{Command, Stdio};
use std::sync::atomic::{AtomicU64, Ordering};

pub const UNPRIVILEGED: u32 = 65534;

#[derive(Clone, Debug, PartialEq, Eq, Serialize, Deserialize)]
pub enum NodeKind {
    File,
    Dir,
    Symlink(String),
    Other,
}

#[derive(Clone, Debug, PartialEq, Eq)]
pub struct Node {
    pub kind: NodeKind,
    pub mode: u32,
    pub content: Vec<u8>,
    pub ino: u64,
    pub mtime_ns: i128,
    pub ctime_ns: i128,
}

pub type Tree = BTreeMap<String, Node>;

#[derive(Clone, Copy, Debug, PartialEq, Eq)]
pub enum Exit {
    Code(i32),
    Signal(i32),
}

#[derive(Clone, Debug)]
pub struct RunResult {
    pub exit: Exit,
    pub stdout: Vec<u8>,
    pub stderr: Vec<u8>,
    pub trace: Vec<Event>,
    pub trace_digest: u64,
    pub trace_garbled: bool,
    pub before: Tree,
    pub after: Tree,
    pub root: String,
}

impl RunResult {
    /// clap rejected the command line (status 2 and its usage text)
    pub fn usage_error(&self) -> bool {
        self.exit == Exit::Code(2) && {
            let e = String::from_utf8_lossy(&self.stderr);
            e.contains("Usage:") || e.contains("For more information, try '--help'")
        }
    }
    pub fn crashed(&self) -> Option<String> {
        match self.exit {
            Exit::Signal(libc::SIGALRM) => Some("timeout: killed by the wall-clock backstop (real hang)".into()),
            Exit::Signal(s) => Some(format!("killed by signal {s}")),
            Exit::Code(c) if c == EXIT_HANG => Some("HANG: compiler blocked and no generator can take a step".into()),
            Exit::Code(c) if c == EXIT_BUDGET => Some("step budget exceeded".into()),
            Exit::Code(101) => Some(format!("panic: {}", String::from_utf8_lossy(&self.stderr).lines().find(|l| l.contains("panicked")).unwrap_or("").trim())),
            Exit::Code(c) if c == EXIT_SEAM_MISUSE => Some("seam misuse (exit 96)".into()),
            // main.rs gives up with this status when it cannot encode the request
            Exit::Code(79) => Some("fatal: the compiler gave up with its 'critical error' exit status 79".into()),
            // Any other status is just "zero" or "non-zero": the statement does not fix the value (a compiler that
            // reports, say, the number of errors is as right as one that always says 1).
            Exit::Code(_) => None,
        }
    }
    pub fn hang_detail(&self) -> Option<String> {
        self.trace.iter().find_map(|e| match &e.kind {
            Ev::Hang { detail } => Some(detail.clone()),
            _ => None,
        })
    }
}

fn snapshot_into(root: &Path, dir: &Path, tree: &mut Tree) {
    let Ok(rd) = std::fs::read_dir(dir) else { return };
    for e in rd.flatten() {
        let p = e.path();
        let rel = p.strip_prefix(root).unwrap().to_string_lossy().into_owned();
        let Ok(md) = std::fs::symlink_metadata(&p) else { continue };
        let ft = md.file_type();
        let (kind, content) = if ft.is_symlink() {
            (NodeKind::Symlink(std::fs::read_link(&p).map(|t| t.to_string_lossy().into_owned()).unwrap_or_default()), Vec::new())
        } else if ft.is_dir() {
            (NodeKind::Dir, Vec::new())
        } else if ft.is_file() {
            (NodeKind::File, std::fs::read(&p).unwrap_or_default())
        } else {
            (NodeKind::Other, Vec::new())
        };
        let is_dir = kind == NodeKind::Dir;
        tree.insert(
            rel,
            Node {
                kind,
                mode: md.mode() & 0o7777,
                content,
                ino: md.ino(),
                mtime_ns: md.mtime() as i128 * 1_000_000_000 + md.mtime_nsec() as i128,
                ctime_ns: md.ctime() as i128 * 1_000_000_000 + md.ctime_nsec() as i128,
            },
        );
        if is_dir {
            snapshot_into(root, &p, tree);
        }
    }
}

pub fn snapshot(root: &Path) -> Tree {
    let mut t = Tree::new();
    snapshot_into(root, root, &mut t);
    t
}

fn lchown(path: &Path, uid: u32) {
    if let Ok(c) = CString::new(path.as_os_str().as_bytes()) {
        unsafe {
            libc::lchown(c.as_ptr(), uid, uid);
        }
    }
}

pub fn entry_bytes(kind: &EntryKind) -> Vec<u8> {
    match kind {
        EntryKind::File { content, hex } => match hex {
            Some(h) => refcodec::util::unhex(h).unwrap_or_default(),
            None => content.as_bytes().to_vec(),
        },
        _ => Vec::new(),
    }
}

/// Builds the world below `root` (which must not exist yet). Entries are created in the order given.
pub fn build_world(root: &Path, world: &World, privileged: bool) -> Result<(), String> {
    std::fs::create_dir_all(root).map_err(|e| format!("{}: {e}", root.display()))?;
    for e in &world.entries {
        let p = root.join(&e.path);
        if let Some(parent) = p.parent() {
            if !parent.exists() {
                std::fs::create_dir_all(parent).map_err(|x| format!("{}: {x}", parent.display()))?;
            }
        }
        match &e.kind {
            EntryKind::File { .. } => std::fs::write(&p, entry_bytes(&e.kind)).map_err(|x| format!("{}: {x}", p.display()))?,
            EntryKind::Dir => {
                if !p.is_dir() {
                    std::fs::create_dir(&p).map_err(|x| format!("{}: {x}", p.display()))?
                }
            }
            EntryKind::Symlink { target } => std::os::unix::fs::symlink(target, &p).map_err(|x| format!("{}: {x}", p.display()))?,
        }
    }
    if privileged {
        // hand everything to the unprivileged user the compiler runs as; permission bits then bite for real
        lchown(root, UNPRIVILEGED);
        let mut all = Tree::new();
        snapshot_into(root, root, &mut all);
        for rel in all.keys() {
            lchown(&root.join(rel), UNPRIVILEGED);
        }
    }
    // modes last and deepest first, so that a read-only directory does not get in the way of building its contents
    let mut with_mode: Vec<&Entry> = world.entries.iter().filter(|e| e.mode.is_some() && !matches!(e.kind, EntryKind::Symlink { .. })).collect();
    with_mode.sort_by_key(|e| std::cmp::Reverse(e.path.matches('/').count()));
    for e in with_mode {
        let p = root.join(&e.path);
        std::fs::set_permissions(&p, std::fs::Permissions::from_mode(e.mode.unwrap())).map_err(|x| format!("chmod {}: {x}", p.display()))?;
    }
    Ok(())
}

static RUN_COUNTER: AtomicU64 = AtomicU64::new(0);

/// Wall-clock limit of one simulated execution. It must never be the first limit an execution meets: the step budget
/// (deterministic) is, also on a machine that is several times oversubscribed - 200 000 steps take a few seconds.
pub const WALL_CLOCK_BACKSTOP_S: u32 = 180;

pub fn scratch_base() -> PathBuf {
    if Path::new("/dev/shm").is_dir() {
        PathBuf::from("/dev/shm")
    } else {
        std::env::temp_dir()
    }
}

pub fn is_root() -> bool {
    unsafe { libc::geteuid() == 0 }
}

/// Removes a run directory even if the world made parts of it inaccessible.
pub fn remove_run_dir(dir: &Path) {
    if std::fs::remove_dir_all(dir).is_ok() {
        return;
    }
    // unprivileged fallback: give ourselves permissions back, then retry
    fn fix(p: &Path) {
        let _ = std::fs::set_permissions(p, std::fs::Permissions::from_mode(0o755));
        if let Ok(rd) = std::fs::read_dir(p) {
            for e in rd.flatten() {
                if e.file_type().map(|t| t.is_dir()).unwrap_or(false) {
                    fix(&e.path());
                }
            }
        }
    }
    fix(dir);
    let _ = std::fs::remove_dir_all(dir);
}

/// Copies an executable to the scratch file system, readable and executable by everybody: the compiler runs as an
/// unprivileged user, who may not be able to reach the build directory (e.g. below /root).
pub fn stage_binary(bin: &Path, tag: &str) -> Result<PathBuf, String> {
    let dir = scratch_base().join(format!("verif-bin-{}-{}", std::process::id(), tag));
    std::fs::create_dir_all(&dir).map_err(|e| format!("{}: {e}", dir.display()))?;
    let _ = std::fs::set_permissions(&dir, std::fs::Permissions::from_mode(0o755));
    let dest = dir.join(bin.file_name().unwrap_or_default());
    std::fs::copy(bin, &dest).map_err(|e| format!("staging {}: {e}", bin.display()))?;
    std::fs::set_permissions(&dest, std::fs::Permissions::from_mode(0o755)).map_err(|e| e.to_string())?;
    Ok(dest)
}

/// Removes scratch directories left behind by runner processes that no longer exist (killed by a time limit, ...).
pub fn remove_stale_scratch() {
    let Ok(rd) = std::fs::read_dir(scratch_base()) else { return };
    for e in rd.flatten() {
        let name = e.file_name().to_string_lossy().into_owned();
        if !name.starts_with("verif-") {
            continue;
        }
        // the creating process' id is one of the numeric components (small numbers are counters, not pids)
        let pids: Vec<i32> = name.split('-').filter_map(|c| c.parse::<i32>().ok()).filter(|p| *p > 300).collect();
        let alive = pids.iter().any(|p| unsafe { libc::kill(*p, 0) == 0 || *libc::__errno_location() == libc::EPERM });
        if !alive {
            remove_run_dir(&e.path());
        }
    }
}

pub fn unstage_binaries() {
    let prefix = format!("verif-bin-{}-", std::process::id());
    if let Ok(rd) = std::fs::read_dir(scratch_base()) {
        for e in rd.flatten() {
            if e.file_name().to_string_lossy().starts_with(&prefix) {
                let _ = std::fs::remove_dir_all(e.path());
            }
        }
    }
}

impl Executor {
    pub fn new(simhost: &Path, tag: &str) -> Result<Executor, String> {
        Ok(Executor { simhost: stage_binary(simhost, tag)?, launcher: launcher_path()?, tag: tag.to_owned() })
    }
}

/// The trampoline that drops privileges etc. in the child, so that the runner itself can use posix_spawn (forking a
/// multi-threaded runner sixteen-fold is what used to dominate the cost of a run).
pub fn launcher_path() -> Result<PathBuf, String> {
    let p = crate::ws::build_root(&crate::ws::verif_root()).join("static/release/launcher");
    if p.exists() {
        Ok(p)
    } else {
        Err(format!("{} is missing (./check builds it)", p.display()))
    }
}

pub fn launch(launcher: &Path, program: &Path, args: &[String], uid: Option<u32>, alarm_s: u32, as_limit: u64, no_aslr: bool) -> Command {
    let mut cmd = Command::new(launcher);
    cmd.arg(uid.map(|u| u.to_string()).unwrap_or_else(|| "-".into()))
        .arg(alarm_s.to_string())
        .arg(as_limit.to_string())
        .arg(if no_aslr { "1" } else { "0" })
        .arg("--")
        .arg(program)
        .args(args);
    cmd
}

pub struct Executor {
    pub simhost: PathBuf,
    pub launcher: PathBuf,
    pub tag: String,
}

impl Executor {
    pub fn run(&self, scenario: &Scenario) -> Result<RunResult, String> {
        let n = RUN_COUNTER.fetch_add(1, Ordering::Relaxed);
        // fixed-width components: the absolute path of the world has the same length in every execution, so that a
        // compiler which reports absolute paths produces outputs that differ in the path only (see the digests)
        let dir = scratch_base().join(format!("verif-{}-{:07}-{:09}", self.tag, std::process::id(), n));
        let _ = std::fs::remove_dir_all(&dir);
        std::fs::create_dir_all(&dir).map_err(|e| format!("{}: {e}", dir.display()))?;
        let r = self.run_in(scenario, &dir);
        if std::env::var_os("VERIF_KEEP_RUNS").is_some() {
            eprintln!("kept run directory {}", dir.display());
        } else {
            remove_run_dir(&dir);
        }
        r
    }

    fn run_in(&self, scenario: &Scenario, dir: &Path) -> Result<RunResult, String> {
        let t0 = std::time::Instant::now();
        let profile = std::env::var_os("VERIF_PROFILE").is_some();
        let privileged = is_root();
        let root = dir.join("w");
        build_world(&root, &scenario.world, privileged)?;
        let before = snapshot(&root);
        let mut sim = scenario.sim.clone();
        sim.root = root.to_string_lossy().into_owned();
        let sc_path = dir.join("sim.json");
        std::fs::write(&sc_path, serde_json::to_vec(&sim).unwrap()).map_err(|e| e.to_string())?;
        let trace_path = dir.join("trace");
        std::fs::write(&trace_path, b"").map_err(|e| e.to_string())?;
        let _ = std::fs::set_permissions(&trace_path, std::fs::Permissions::from_mode(0o666));
        let cwd = if scenario.world.cwd.is_empty() { root.clone() } else { root.join(&scenario.world.cwd) };

        // "@ROOT@" in an argument stands for the absolute path of this execution's world
        let argv: Vec<String> = scenario.argv.iter().map(|a| a.replace("@ROOT@", &sim.root)).collect();
        let mut cmd = launch(&self.launcher, &self.simhost, &argv, if privileged { Some(UNPRIVILEGED) } else { None }, WALL_CLOCK_BACKSTOP_S, 4 << 30, true);
        cmd.current_dir(&cwd)
            .env_clear()
            .env("SIM_SCENARIO", &sc_path)
            .env("SIM_TRACE", &trace_path)
            .env("SIM_HASH_SEED", sim.hash_seed.to_string())
            .stdin(Stdio::null())
            .stdout(Stdio::piped())
            .stderr(Stdio::piped());
        let t1 = std::time::Instant::now();
        let out = cmd.output().map_err(|e| format!("cannot start {}: {e}", self.simhost.display()))?;
        let t2 = std::time::Instant::now();
        let exit = match out.status.code() {
            Some(c) => Exit::Code(c),
            None => Exit::Signal(out.status.signal().unwrap_or(0)),
        };
        let raw = std::fs::read(&trace_path).unwrap_or_default();
        if let Some(d) = std::env::var_os("VERIF_DUMP_TRACE") {
            // debugging aid: keep a copy of every raw trace and of both output streams
            let base = Path::new(&d).join(dir.file_name().unwrap_or_default());
            let _ = std::fs::create_dir_all(&base);
            let _ = std::fs::write(base.join("trace"), &raw);
            let _ = std::fs::write(base.join("stdout"), &out.stdout);
            let _ = std::fs::write(base.join("stderr"), &out.stderr);
        }
        let mut digest = refcodec::util::Fnv::default();
        let mut trace = Vec::new();
        let mut garbled = false;
        let lines: Vec<&[u8]> = raw.split(|b| *b == b'\n').filter(|l| !l.is_empty()).collect();
        let root_hex = refcodec::util::hex(sim.root.as_bytes());
        for (i, line) in lines.iter().enumerate() {
            // the digest ignores WHERE this execution's world happened to live (plain and hex-encoded occurrences)
            let text = String::from_utf8_lossy(line);
            if text.contains(&sim.root) || text.contains(&root_hex) {
                digest.update(text.replace(&sim.root, "@ROOT@").replace(&root_hex, "@ROOTHEX@").as_bytes());
            } else {
                digest.update(line);
            }
            match serde_json::from_slice::<Event>(line) {
                Ok(ev) => trace.push(ev),
                // a torn LAST record: the process ended (exit, abort, kill) while a record was being written
                Err(_) if i + 1 == lines.len() && !raw.ends_with(b"\n") => {}
                Err(_) => garbled = true,
            }
        }
        let t3 = std::time::Instant::now();
        let after = snapshot(&root);
        if profile {
            eprintln!("profile: world+before {:?} run {:?} trace({} bytes) {:?} after {:?}", t1 - t0, t2 - t1, raw.len(), t3 - t2, t3.elapsed());
        }
        Ok(RunResult { exit, stdout: out.stdout, stderr: out.stderr, trace, trace_digest: digest.0, trace_garbled: garbled, before, after, root: sim.root })
    }
}

// ------------------------------------------------------------------------------------------------------------------
// Diagnostics as emitted by the compiler
// ------------------------------------------------------------------------------------------------------------------

#[derive(Clone, Debug, PartialEq, Eq, PartialOrd, Ord)]
pub struct Diag {
    pub error: bool,
    pub code: String,
    pub message: String,
    /// "file:row:col" of the primary span, if the diagnostic has one
    pub location: String,
}

/// Parses the diagnostic stream (stderr) in either format. Lines that are not diagnostic headers are ignored
/// (snippets, notes, output relayed from generators).
pub fn parse_diagnostics(stderr: &[u8], json: bool) -> Vec<Diag> {
    let text = String::from_utf8_lossy(stderr);
    let mut out = Vec::new();
    let mut expecting_location = false;
    for line in text.lines() {
        if json {
            if let Ok(v) = serde_json::from_str::<serde_json::Value>(line) {
                if let (Some(sev), Some(msg)) = (v.get("severity").and_then(|s| s.as_str()), v.get("message").and_then(|s| s.as_str())) {
                    let location = match v.get("span") {
                        Some(sp) if !sp.is_null() => format!("{}:{}:{}", sp["file"].as_str().unwrap_or(""), sp["start"]["row"], sp["start"]["col"]),
                        _ => String::new(),
                    };
                    out.push(Diag { error: sev == "error", code: v.get("error_code").and_then(|s| s.as_str()).unwrap_or("").to_owned(), message: msg.to_owned(), location });
                }
            }
        } else {
            let clean = strip_ansi(line);
            for (prefix, error) in [("error [", true), ("warning [", false)] {
                if let Some(rest) = clean.strip_prefix(prefix) {
                    if let Some((code, msg)) = rest.split_once("]: ") {
                        out.push(Diag { error, code: code.to_owned(), message: msg.to_owned(), location: String::new() });
                        expecting_location = true;
                        continue;
                    }
                }
            }
            // the snippet header right after a diagnostic header: " --> file:row:col" (notes have their own, later)
            if let Some(loc) = clean.strip_prefix(" --> ") {
                if expecting_location {
                    if let Some(d) = out.last_mut() {
                        d.location = loc.trim().to_owned();
                    }
                }
            }
            if !clean.starts_with("error [") && !clean.starts_with("warning [") {
                expecting_location = false;
            }
        }
    }
    out
}

pub fn strip_ansi(s: &str) -> String {
    let mut out = String::with_capacity(s.len());
    let mut chars = s.chars().peekable();
    while let Some(c) = chars.next() {
        if c == '\u{1b}' && chars.peek() == Some(&'[') {
            chars.next();
            for d in chars.by_ref() {
                if d.is_ascii_alphabetic() {
                    break;
                }
            }
        } else {
            out.push(c);
        }
    }
    out
}

/// "Failed: Compilation failed with N error(s)" on stdout (human format only).
pub fn summary_error_count(stdout: &[u8]) -> Option<usize> {
    let text = String::from_utf8_lossy(stdout);
    for line in text.lines() {
        let clean = strip_ansi(line);
        if let Some(rest) = clean.strip_prefix("Failed: Compilation failed with ") {
            return rest.split_whitespace().next().and_then(|n| n.parse().ok());
        }
    }
    None
}

pub fn summary_warning_count(stdout: &[u8]) -> Option<usize> {
    let text = String::from_utf8_lossy(stdout);
    for line in text.lines() {
        let clean = strip_ansi(line);
        if let Some(rest) = clean.strip_prefix("Warnings: Compilation generated ") {
            return rest.split_whitespace().next().and_then(|n| n.parse().ok());
        }
    }
    None
}

// ------------------------------------------------------------------------------------------------------------------
// What the trace says about each generator
// ------------------------------------------------------------------------------------------------------------------

#[derive(Clone, Debug, Default)]
pub struct GenHistory {
    pub program: String,
    pub label: String,
    /// None = spawn failed with this errno
    pub spawn_errno: Option<i32>,
    pub gen: Option<usize>,
    pub stdin_accepted: Vec<u8>,
    pub stdin_known: bool,
    /// the compiler never closed this stdin: the capture was taken when the compiler exited
    pub stdin_open_at_exit: bool,
    /// errno of the first failed write to its stdin other than EINTR
    pub stdin_error: Option<i32>,
    pub collected: bool,
    pub collect_errno: i32,
    pub status: Option<i32>,
    pub stdout: Vec<u8>,
    pub stderr: Vec<u8>,
    pub stdio: (String, String, String),
    /// the generator wrote to a stderr that the compiler had not piped (inherited or /dev/null): the bytes exist but
    /// the compiler cannot have seen them
    pub stderr_unseen: bool,
}

/// Spawn attempts in the order they happened, each with everything the compiler observed about that process.
pub fn generator_histories(trace: &[Event]) -> Vec<GenHistory> {
    let mut out: Vec<GenHistory> = Vec::new();
    let mut by_gen: BTreeMap<usize, usize> = BTreeMap::new();
    for e in trace {
        match &e.kind {
            Ev::Spawn { gen, program, result, label, stdin, stdout, stderr, .. } => {
                let mut h = GenHistory { program: program.clone(), label: label.clone(), stdio: (stdin.clone(), stdout.clone(), stderr.clone()), ..Default::default() };
                if *result < 0 {
                    h.spawn_errno = Some(-*result);
                } else {
                    h.gen = Some(*gen);
                    by_gen.insert(*gen, out.len());
                }
                out.push(h);
            }
            Ev::StdinWrite { gen, result, .. } => {
                if let Some(i) = by_gen.get(gen) {
                    if *result < 0 && *result != -(libc::EINTR as i64) && out[*i].stdin_error.is_none() {
                        out[*i].stdin_error = Some(-*result as i32);
                    }
                }
            }
            Ev::StdinClose { gen, hex, at_exit, .. } => {
                if let Some(i) = by_gen.get(gen) {
                    out[*i].stdin_accepted = refcodec::util::unhex(hex).unwrap_or_default();
                    out[*i].stdin_known = true;
                    out[*i].stdin_open_at_exit = *at_exit;
                }
            }
            Ev::Wait { gen, op, status, stdout_hex, stderr_hex, result, .. } => {
                if let Some(i) = by_gen.get(gen) {
                    let h = &mut out[*i];
                    if *status >= 0 {
                        h.status = Some(*status);
                        h.collected = true;
                    }
                    if op == "wait_with_output" {
                        h.stdout.extend(refcodec::util::unhex(stdout_hex).unwrap_or_default());
                        h.stderr.extend(refcodec::util::unhex(stderr_hex).unwrap_or_default());
                        h.collect_errno = -*result;
                    }
                }
            }
            Ev::Gen { gen, what } if what == "stderr-not-piped" => {
                if let Some(i) = by_gen.get(gen) {
                    out[*i].stderr_unseen = true;
                }
            }
            Ev::PipeRead { gen, fd, result, hex, .. } => {
                if let Some(i) = by_gen.get(gen) {
                    if *result > 0 {
                        let b = refcodec::util::unhex(hex).unwrap_or_default();
                        if *fd == 2 {
                            out[*i].stderr.extend(b);
                        } else {
                            out[*i].stdout.extend(b);
                        }
                    }
                }
            }
            _ => {}
        }
    }
    out
}

/// True if the compiler ran more than one real thread: its execution is then only deterministic on a best-effort
/// basis (the shipped compiler is single-threaded and never gets here).
pub fn threads_seen(trace: &[Event]) -> bool {
    trace.iter().any(|e| matches!(&e.kind, Ev::End { max_threads, .. } if *max_threads > 1))
}

pub fn steps_of(trace: &[Event]) -> u64 {
    trace.iter().rev().find_map(|e| match &e.kind {
        Ev::End { steps, .. } | Ev::Budget { steps } => Some(*steps),
        _ => None,
    }).unwrap_or(0)
}
