//! The behaviour catalogue of C18: scripts for simulated generators, and the replies they send.

use refcodec::dynval::Writer;
use refcodec::schema::{encode_reply, RDiag, RFile, Reply};
use refcodec::util::{hex, Rng};
use simproto::{Generator, ScriptOp};

pub const CAPS: &[usize] = &[1, 2, 3, 7, 16, 64, 512, 4096, 65536];

#[derive(Clone, Debug)]
pub struct Behaviour {
    pub gen: Generator,
    /// what the script intends (documentation + swarm statistics; the oracle judges from the recorded history)
    pub kind: &'static str,
    /// true if the verdict of this behaviour does not depend on the schedule (used by C15 and the conformance test)
    pub schedule_independent: bool,
}

pub fn w(fd: u8, bytes: &[u8]) -> ScriptOp {
    ScriptOp::Write { fd, hex: hex(bytes) }
}

/// A reply with 0..n files. `pool` offers file names (relative paths), some of which already exist in the world.
pub fn random_reply(rng: &mut Rng, pool: &[String], max_files: usize, big: bool) -> Reply {
    let n = rng.usize_below(max_files + 1);
    let mut files = Vec::new();
    for _ in 0..n {
        let path = rng.pick(pool).clone();
        let len = if big && rng.chance(1, 3) { 20_000 + rng.usize_below(50_000) } else { rng.usize_below(200) };
        let mut contents = format!("// generated {}\n", rng.below(1_000_000)).into_bytes();
        while contents.len() < len {
            contents.extend_from_slice(format!("line {} of {}\n", contents.len(), path).as_bytes());
        }
        files.push(RFile { path: path.into_bytes(), contents });
    }
    let mut diagnostics = Vec::new();
    if rng.chance(1, 4) {
        for _ in 0..1 + rng.usize_below(2) {
            diagnostics.push(RDiag {
                level: rng.below(2) as u8, // Info or Warning: the statement is silent about Error-level generator diagnostics
                message: format!("generator note {}", rng.below(1000)).into_bytes(),
                source: if rng.chance(1, 2) { Some(b"gen.cfg".to_vec()) } else { None },
            });
        }
    }
    Reply { files, diagnostics }
}

fn caps(rng: &mut Rng, small_ok: bool) -> (usize, usize, usize) {
    let pick = |rng: &mut Rng| -> usize {
        if small_ok && rng.chance(1, 3) {
            *rng.pick(CAPS)
        } else {
            *rng.pick(&[512usize, 4096, 65536, 65536])
        }
    };
    (pick(rng), pick(rng), pick(rng))
}

fn read_op(rng: &mut Rng) -> ScriptOp {
    // a generator either parses its self-delimiting request or simply reads until end of file
    if rng.chance(2, 3) {
        ScriptOp::ReadRequest
    } else {
        ScriptOp::ReadToEof
    }
}

fn finish(mut script: Vec<ScriptOp>, rng: &mut Rng, exit: ScriptOp) -> Vec<ScriptOp> {
    if rng.chance(1, 5) {
        script.push(ScriptOp::Yield { n: 1 + rng.usize_below(5) });
    }
    script.push(exit);
    script
}

/// Splits one write into several, so that the reply arrives in pieces.
fn chunked(rng: &mut Rng, fd: u8, bytes: &[u8]) -> Vec<ScriptOp> {
    if bytes.len() < 2 || rng.chance(1, 2) {
        return vec![w(fd, bytes)];
    }
    let mut ops = Vec::new();
    let mut at = 0;
    while at < bytes.len() {
        let n = (1 + rng.usize_below(bytes.len())).min(bytes.len() - at);
        ops.push(w(fd, &bytes[at..at + n]));
        if rng.chance(1, 4) {
            ops.push(ScriptOp::Yield { n: 1 });
        }
        at += n;
    }
    ops
}

pub fn ok(rng: &mut Rng, reply: &Reply, small_caps: bool) -> Behaviour {
    let bytes = encode_reply(reply);
    let mut script = vec![read_op(rng)];
    script.extend(chunked(rng, 1, &bytes));
    let (a, b, c) = caps(rng, small_caps);
    Behaviour {
        gen: Generator { script: finish(script, rng, ScriptOp::Exit { code: 0 }), stdin_cap: a, stdout_cap: b, stderr_cap: c, label: format!("ok/{}files", reply.files.len()), ..Default::default() },
        kind: "ok",
        schedule_independent: true,
    }
}

pub const UNDECODABLE: &[&str] = &[
    "empty", "truncated", "bad-bool", "bad-utf8-path", "bad-utf8-contents", "bad-utf8-message", "bad-level", "huge-count", "huge-string", "huge-tagged", "unknown-tag-past-end", "dup-marker-missing",
];

/// A reply the reference decoder rejects. `cut` selects the truncation point for "truncated".
pub fn undecodable_reply(rng: &mut Rng, kind: &str, base: &Reply, cut: Option<usize>) -> Vec<u8> {
    let good = encode_reply(base);
    let announced = |rng: &mut Rng| -> u128 { *rng.pick(&[1u128 << 14, 1 << 30, (1 << 62) - 1, 1 << 40]) };
    match kind {
        "empty" => Vec::new(),
        "truncated" => {
            let at = cut.unwrap_or_else(|| rng.usize_below(good.len()));
            good[..at.min(good.len().saturating_sub(1))].to_vec()
        }
        "bad-bool" => {
            // a diagnostic whose bit sequence / has_source byte is not 0 or 1
            let mut w = Writer::new();
            w.size(0);
            w.size(1);
            w.out.push(*rng.pick(&[2u8, 3, 0x80, 0xff]));
            w.out.push(1);
            w.string("m");
            w.tag_end();
            w.out
        }
        "bad-utf8-path" | "bad-utf8-contents" => {
            let mut w = Writer::new();
            w.size(1);
            let bad: &[u8] = *rng.pick(&[&[0xffu8, 0x41][..], &[0x61, 0xe2, 0x82][..], &[0xc0, 0x80][..], &[0xed, 0xa0, 0x80][..]]);
            if kind == "bad-utf8-path" {
                w.bytes_as_string(bad);
                w.string("contents");
            } else {
                w.string("x.txt");
                w.bytes_as_string(bad);
            }
            w.tag_end();
            w.size(0);
            w.out
        }
        "bad-utf8-message" => {
            let mut w = Writer::new();
            w.size(0);
            w.size(1);
            w.out.push(0);
            w.out.push(1);
            w.bytes_as_string(&[0x66, 0xf0, 0x9f]);
            w.tag_end();
            w.out
        }
        "bad-level" => {
            let mut w = Writer::new();
            w.size(0);
            w.size(1);
            w.out.push(0);
            w.out.push(*rng.pick(&[3u8, 4, 0x7f, 0xff]));
            w.string("m");
            w.tag_end();
            w.out
        }
        "huge-count" => {
            let mut w = Writer::new();
            if rng.chance(1, 2) {
                w.var_unsigned(announced(rng), None);
            } else {
                w.size(0);
                w.var_unsigned(announced(rng), None);
            }
            w.out
        }
        "huge-string" => {
            let mut w = Writer::new();
            w.size(1);
            w.string("x.txt");
            w.var_unsigned(announced(rng), None);
            w.out.extend_from_slice(b"short");
            w.out
        }
        "huge-tagged" => {
            let mut w = Writer::new();
            w.size(1);
            w.string("x.txt");
            w.string("c");
            w.var_signed(5, None); // an unknown tag
            w.var_unsigned(announced(rng), None);
            w.out.extend_from_slice(b"zz");
            w.out
        }
        "unknown-tag-past-end" => {
            let mut w = Writer::new();
            w.size(1);
            w.string("x.txt");
            w.string("c");
            w.var_signed(9, None);
            w.size(16);
            w.out.extend_from_slice(b"only8byt");
            w.out
        }
        _ => {
            // the tag end marker of the last file is missing: the decoder runs into the diagnostics count
            let mut w = Writer::new();
            w.size(1);
            w.string("x.txt");
            w.string("c");
            w.out
        }
    }
}

/// All behaviours that make a generator fail (or succeed by a hair). `request_hint` = rough size of the request.
pub fn failing(rng: &mut Rng, base: &Reply, request_hint: usize, small_caps: bool) -> Behaviour {
    let good = encode_reply(base);
    let (a, b, c) = caps(rng, small_caps);
    let mk = |script: Vec<ScriptOp>, label: String, kind: &'static str, indep: bool| Behaviour {
        gen: Generator { script, stdin_cap: a, stdout_cap: b, stderr_cap: c, label, ..Default::default() },
        kind,
        schedule_independent: indep,
    };
    match rng.below(15) {
        0 => {
            let errno = *rng.pick(&[libc::ENOENT, libc::EACCES, libc::ENOEXEC, libc::EAGAIN, libc::ENOMEM, libc::EMFILE]);
            Behaviour { gen: Generator { spawn_errno: Some(errno), label: format!("spawn-errno-{errno}"), ..Default::default() }, kind: "spawn-error", schedule_independent: true }
        }
        1 => {
            let code = *rng.pick(&[1, 255, 2, 70]);
            let mut s = vec![read_op(rng)];
            if rng.chance(2, 3) {
                s.extend(chunked(rng, 1, &good));
            }
            s.push(ScriptOp::Exit { code });
            mk(s, format!("exit-{code}"), "exit-nonzero", true)
        }
        2 => {
            let sig = *rng.pick(&[libc::SIGKILL, libc::SIGSEGV, libc::SIGABRT, libc::SIGTERM]);
            let mut s = Vec::new();
            let label;
            match rng.below(3) {
                0 => {
                    // before reading anything
                    label = format!("signal-{sig}-at-start");
                }
                1 => {
                    s.push(read_op(rng));
                    let cut = rng.usize_below(good.len() + 1);
                    s.push(w(1, &good[..cut]));
                    label = format!("signal-{sig}-mid-reply@{cut}");
                }
                _ => {
                    s.push(read_op(rng));
                    s.extend(chunked(rng, 1, &good));
                    label = format!("signal-{sig}-after-reply");
                }
            }
            s.push(ScriptOp::Die { signal: sig });
            let indep = !label.ends_with("at-start");
            mk(s, label, "signal", indep)
        }
        3 => {
            // stderr output with exit 0; sizes from one byte to beyond the pipe capacity, either side of the reply
            let n = *rng.pick(&[1usize, 5, 100, 4096, 65536, 70000, 200_000]);
            let mut s = vec![read_op(rng)];
            let reply_first = rng.chance(1, 2);
            let with_reply = rng.chance(2, 3);
            if with_reply && reply_first {
                s.extend(chunked(rng, 1, &good));
            }
            s.push(ScriptOp::WriteFill { fd: 2, n, byte: b'\n' });
            if with_reply && !reply_first {
                s.extend(chunked(rng, 1, &good));
            }
            s.push(ScriptOp::Exit { code: 0 });
            mk(s, format!("stderr-{n}-bytes"), "stderr", true)
        }
        4 => {
            // exits / closes stdin without (completely) reading: a race in real life; here the schedule decides
            let mut s = Vec::new();
            let how = rng.below(4);
            match how {
                0 => {}
                1 => s.push(ScriptOp::ReadExact { n: rng.usize_below(request_hint.max(2)) }),
                2 => s.push(ScriptOp::Close { fd: 0 }),
                _ => s.push(ScriptOp::Read { n: 1 + rng.usize_below(64) }),
            }
            // a reply smaller than any pipe we use here, so that writing before reading is legal
            if rng.chance(1, 2) {
                s.push(w(1, &[0, 0]));
            }
            if how == 2 && rng.chance(1, 2) {
                s.push(ScriptOp::Yield { n: 3 });
            }
            s.push(ScriptOp::Exit { code: 0 });
            mk(s, format!("no-read-{how}"), "exit-without-reading", false)
        }
        5 => {
            let kind = *rng.pick(UNDECODABLE);
            let bytes = undecodable_reply(rng, kind, base, None);
            let mut s = vec![read_op(rng)];
            s.extend(chunked(rng, 1, &bytes));
            s.push(ScriptOp::Exit { code: 0 });
            mk(s, format!("undecodable-{kind}"), "undecodable", true)
        }
        6 => {
            // truncated at a seeded byte of a valid reply with at least one file
            let cut = rng.usize_below(good.len().max(1));
            let mut s = vec![read_op(rng)];
            s.push(w(1, &good[..cut]));
            s.push(ScriptOp::Exit { code: 0 });
            mk(s, format!("truncated@{cut}/{}", good.len()), "truncated", true)
        }
        7 => {
            let mut s = vec![read_op(rng)];
            s.extend(chunked(rng, 1, &good));
            s.push(ScriptOp::Exit { code: 0 });
            let errno = *rng.pick(&[libc::EIO, libc::ENOMEM, libc::EAGAIN]);
            Behaviour {
                gen: Generator { script: s, stdin_cap: a, stdout_cap: b, stderr_cap: c, collect_errno: Some(errno), label: format!("collect-errno-{errno}"), ..Default::default() },
                kind: "collect-error",
                schedule_independent: true,
            }
        }
        8 => {
            // closes stdout early, keeps running for a while, then exits 0 with nothing written
            let s = vec![read_op(rng), ScriptOp::Close { fd: 1 }, ScriptOp::Yield { n: 4 }, ScriptOp::Exit { code: 0 }];
            mk(s, "closes-stdout".into(), "undecodable", true)
        }
        9 => {
            // valid reply, then stderr noise and a non-zero exit
            let mut s = vec![read_op(rng)];
            s.extend(chunked(rng, 1, &good));
            s.push(w(2, b"fatal: something went wrong\n"));
            s.push(ScriptOp::Exit { code: 3 });
            mk(s, "reply-then-stderr-exit3".into(), "exit-nonzero", true)
        }
        10 => {
            // reads only part of the request, replies, exits 0: by history OK or FAILED depending on EPIPE
            let s = vec![ScriptOp::ReadExact { n: 1 + rng.usize_below(request_hint.max(2)) }, w(1, &[0, 0]), ScriptOp::Exit { code: 0 }];
            mk(s, "partial-read-then-reply".into(), "exit-without-reading", false)
        }
        13 => {
            // a valid reply that went through a noisy channel: 1..2 byte-level corruptions anywhere except inside a
            // path string (so that whatever still decodes keeps writing to the names of the pool)
            let mut bytes = good.clone();
            let mut protected: Vec<(usize, usize)> = Vec::new();
            {
                let mut r = refcodec::dynval::Reader::new(&good);
                if let Ok(n) = r.size() {
                    for _ in 0..n {
                        let start = r.pos;
                        if r.string().is_err() {
                            break;
                        }
                        protected.push((start, r.pos));
                        if r.string().is_err() || r.skip_tagged().is_err() {
                            break;
                        }
                    }
                }
            }
            let free: Vec<usize> = (0..bytes.len()).filter(|i| !protected.iter().any(|(a, b)| i >= a && i < b)).collect();
            let mut what = Vec::new();
            if !free.is_empty() {
                for _ in 0..1 + rng.usize_below(2) {
                    let at = *rng.pick(&free);
                    match rng.below(3) {
                        0 => {
                            let bit = rng.below(8);
                            bytes[at] ^= 1 << bit;
                            what.push(format!("flip@{at}.{bit}"));
                        }
                        1 => {
                            let b = *rng.pick(&[0u8, 1, 2, 0xfc, 0xfd, 0xfe, 0xff, 0x80, 0x7f]);
                            bytes[at] = b;
                            what.push(format!("set@{at}={b:#x}"));
                        }
                        _ => {
                            // a length prefix inflated to a huge announced size
                            let mut w = refcodec::dynval::Writer::new();
                            w.var_unsigned(*rng.pick(&[1u128 << 28, (1 << 62) - 1, 1 << 40]), None);
                            bytes.splice(at..at + 1, w.out);
                            what.push(format!("announce@{at}"));
                            break;
                        }
                    }
                }
            }
            let mut s = vec![read_op(rng)];
            s.extend(chunked(rng, 1, &bytes));
            s.push(ScriptOp::Exit { code: 0 });
            mk(s, format!("corrupted-reply {}", what.join(" ")), "corrupted", true)
        }
        12 => {
            // closes stdin early (perhaps after reading a little), stays alive and then writes more than a pipe holds
            let mut s = Vec::new();
            if rng.chance(1, 2) {
                s.push(ScriptOp::ReadExact { n: 1 + rng.usize_below(request_hint.max(2)) });
            }
            s.push(ScriptOp::Close { fd: 0 });
            let n = *rng.pick(&[70_000usize, 200_000, 66_000]);
            match rng.below(3) {
                0 => s.push(ScriptOp::WriteFill { fd: 1, n, byte: 0 }),
                1 => s.push(ScriptOp::WriteFill { fd: 2, n, byte: b'\n' }),
                _ => {
                    s.extend(chunked(rng, 1, &good));
                    s.push(ScriptOp::WriteFill { fd: 2, n, byte: b'\n' });
                }
            }
            s.push(ScriptOp::Exit { code: 0 });
            mk(s, format!("closes-stdin-then-floods-{n}"), "exit-without-reading", false)
        }
        11 => {
            // large stderr AND large stdout, interleaved: both pipes fill before the compiler collects
            let mut s = vec![read_op(rng)];
            for _ in 0..3 {
                s.push(ScriptOp::WriteFill { fd: 2, n: 40_000, byte: b'\n' });
                s.push(w(1, &good[..good.len().min(1)]));
            }
            s.push(ScriptOp::Exit { code: 0 });
            mk(s, "stderr-and-stdout-interleaved".into(), "stderr", true)
        }
        _ => {
            let kind = "truncated";
            let bytes = undecodable_reply(rng, kind, base, None);
            let mut s = vec![read_op(rng)];
            s.extend(chunked(rng, 1, &bytes));
            s.push(ScriptOp::Exit { code: 0 });
            mk(s, format!("undecodable-{kind}"), "undecodable", true)
        }
    }
}

/// Bytes a script writes to (stdout, stderr) in total, and before it has read its whole request.
fn written(script: &[ScriptOp]) -> ((usize, usize), (usize, usize)) {
    let mut total = (0usize, 0usize);
    let mut before_full_read = (0usize, 0usize);
    let mut full_read_seen = false;
    for op in script {
        let (fd, n) = match op {
            ScriptOp::ReadRequest | ScriptOp::ReadToEof => {
                full_read_seen = true;
                continue;
            }
            // a generator that has closed its stdin can no longer stall the compiler's write (it fails with EPIPE at
            // once), so what it writes afterwards is not bounded by the pipe protocol
            ScriptOp::Close { fd: 0 } => {
                full_read_seen = true;
                continue;
            }
            ScriptOp::Write { fd, hex } => (*fd, hex.len() / 2),
            ScriptOp::WriteFill { fd, n, .. } => (*fd, *n),
            _ => continue,
        };
        let slot = |t: &mut (usize, usize)| if fd == 2 { t.1 += n } else { t.0 += n };
        slot(&mut total);
        if !full_read_seen {
            slot(&mut before_full_read);
        }
    }
    (total, before_full_read)
}

/// The protocol of main.rs: a generator reads its entire request before it writes, or writes less than a pipe
/// holds. A script that does neither is outside the property's catalogue.
pub fn respects_protocol(g: &Generator) -> bool {
    let (_, early) = written(&g.script);
    early.0 <= g.stdout_cap && early.1 <= g.stderr_cap
}

/// Makes a drawn behaviour legal and affordable: pipes large enough for what is written before the request has
/// been read, and no pipe so small that moving the data through it would exhaust the step budget.
pub fn normalise(g: &mut Generator, request_hint: usize) {
    const MAX_TRANSFERS: usize = 4000;
    let (total, early) = written(&g.script);
    g.stdout_cap = g.stdout_cap.max(early.0).max(total.0 / MAX_TRANSFERS + 1);
    g.stderr_cap = g.stderr_cap.max(early.1).max(total.1 / MAX_TRANSFERS + 1);
    g.stdin_cap = g.stdin_cap.max(request_hint * 2 / MAX_TRANSFERS + 1);
}
