//! Stub conformance: schedule-independent scenarios are executed twice — against the simulation (simhost) and
//! against the REAL `slicec` binary with REAL generator processes (the `fakegen` executable playing the same
//! scripts on real pipes) — and must give the same exit status, the same diagnostic stream, the same stdout and
//! the same generated files. This validates the model of the process world; it is not part of any verdict.

use crate::catalogue;
use crate::gens;
use crate::hostcase::{content_for, generator_spec};
use crate::simrun::*;
use crate::ws::Ws;
use refcodec::schema::{RFile, Reply};
use refcodec::util::Rng;
use serde_json::{json, Value};
use simproto::*;
use std::os::unix::fs::PermissionsExt;
use std::os::unix::process::{CommandExt, ExitStatusExt};
use std::path::{Path, PathBuf};
use std::process::{Command, Stdio};

const PATHS: &[&str] = &["./gen-alpha", "tools/beta.exe", "./delta gen"];

pub fn build_real(ws: &Ws) -> Result<PathBuf, String> {
    let target = ws.dir.join("target-real");
    let out = Command::new("cargo")
        .args(["build", "--offline", "--release", "-p", "slicec", "--bin", "slicec", "--manifest-path"])
        .arg(ws.repo.join("Cargo.toml"))
        .env("CARGO_NET_OFFLINE", "true")
        .env("CARGO_TARGET_DIR", &target)
        .env_remove("RUSTFLAGS")
        .output()
        .map_err(|e| format!("cargo: {e}"))?;
    if !out.status.success() {
        return Err(format!("building the real slicec binary failed:\n{}", String::from_utf8_lossy(&out.stderr)));
    }
    Ok(target.join("release/slicec"))
}

/// One executable copy of fakegen per runner process, on the file system the worlds live on.
fn master_copy(fakegen: &Path) -> Result<&'static PathBuf, String> {
    static MASTER: std::sync::OnceLock<Result<PathBuf, String>> = std::sync::OnceLock::new();
    MASTER
        .get_or_init(|| {
            let dir = scratch_base().join(format!("verif-fakegen-{}", std::process::id()));
            std::fs::create_dir_all(&dir).map_err(|e| e.to_string())?;
            let p = dir.join("fakegen");
            std::fs::copy(fakegen, &p).map_err(|e| format!("copy fakegen: {e}"))?;
            std::fs::set_permissions(&p, std::fs::Permissions::from_mode(0o755)).map_err(|e| e.to_string())?;
            Ok(p)
        })
        .as_ref()
        .map_err(|e| e.clone())
}

pub fn cleanup_master() {
    let _ = std::fs::remove_dir_all(scratch_base().join(format!("verif-fakegen-{}", std::process::id())));
}

pub fn fakegen_path(ws: &Ws) -> PathBuf {
    crate::ws::build_root(&ws.verif).join("static/release/fakegen")
}

pub fn generate(rng: &mut Rng) -> Scenario {
    let mut world = World::default();
    let templates = catalogue::by_class(true, true, false);
    let program = catalogue::instantiate(*rng.pick(&templates), rng);
    let mut argv: Vec<String> = Vec::new();
    for f in &program.files {
        world.entries.push(Entry { path: f.name.clone(), kind: EntryKind::File { content: f.text.clone(), hex: None }, mode: None });
        argv.push(f.name.clone());
    }
    world.entries.push(Entry { path: "out".into(), kind: EntryKind::Dir, mode: None });
    world.entries.push(Entry { path: "tools".into(), kind: EntryKind::Dir, mode: None });
    if rng.chance(1, 2) {
        world.entries.push(Entry { path: "out/same.txt".into(), kind: EntryKind::File { content: String::from_utf8(content_for("same.txt", 0, false)).unwrap(), hex: None }, mode: None });
    }
    let mut sim = Sim { hash_seed: rng.next_u64(), sched: *rng.pick(&[Sched::CompilerFirst, Sched::Random, Sched::GeneratorsEager]), choice_seed: rng.next_u64(), ..Default::default() };
    let n = 1 + rng.usize_below(3);
    let mut gen_meta = Vec::new();
    for i in 0..n {
        let path = PATHS[i].to_owned();
        let mut files = Vec::new();
        for _ in 0..rng.usize_below(3) {
            let name = *rng.pick(&["a.txt", "same.txt", "c.rs", "x.txt"]);
            files.push(RFile { path: name.as_bytes().to_vec(), contents: content_for(name, rng.below(2) as u8, rng.chance(1, 6)) });
        }
        let mut reply = gens::random_reply(rng, &[], 0, false);
        reply.files = files;
        let reply: Reply = reply;
        let mut b = if rng.chance(1, 2) { gens::ok(rng, &reply, false) } else { gens::failing(rng, &reply, 2000, false) };
        let mut tries = 0;
        loop {
            let realisable = b.schedule_independent
                && b.gen.collect_errno.is_none()
                && matches!(b.gen.spawn_errno, None | Some(libc::ENOENT) | Some(libc::EACCES) | Some(libc::ENOEXEC));
            if realisable || tries > 40 {
                if !realisable {
                    b = gens::ok(rng, &reply, false);
                }
                break;
            }
            b = gens::failing(rng, &reply, 2000, false);
            tries += 1;
        }
        let mut g = b.gen.clone();
        // the real kernel's pipes hold 64 KiB
        g.stdin_cap = 65536;
        g.stdout_cap = 65536;
        g.stderr_cap = 65536;
        // the executable and its script are part of the world in both executions (inert files for the simulation)
        match g.spawn_errno {
            Some(libc::ENOENT) => {}
            Some(libc::EACCES) => world.entries.push(Entry { path: path.trim_start_matches("./").to_owned(), kind: EntryKind::File { content: "@FAKEGEN@".into(), hex: None }, mode: Some(0o644) }),
            Some(_) => world.entries.push(Entry { path: path.trim_start_matches("./").to_owned(), kind: EntryKind::File { content: String::new(), hex: Some("00676172626167650a".into()) }, mode: Some(0o755) }),
            None => {
                world.entries.push(Entry { path: path.trim_start_matches("./").to_owned(), kind: EntryKind::File { content: "@FAKEGEN@".into(), hex: None }, mode: Some(0o755) });
                world.entries.push(Entry {
                    path: format!("{}.script.json", path.trim_start_matches("./")),
                    kind: EntryKind::File { content: serde_json::to_string(&g).unwrap(), hex: None },
                    mode: None,
                });
            }
        }
        sim.generators.insert(path.clone(), vec![g]);
        let args = vec![("k".to_owned(), format!("v{i}"))];
        argv.push("-G".into());
        argv.push(generator_spec(&path, &args));
        gen_meta.push(json!({"path": path, "kind": b.kind, "label": b.gen.label}));
    }
    argv.push("-O".into());
    argv.push("out".into());
    if rng.chance(1, 3) {
        argv.push("--diagnostic-format".into());
        argv.push("json".into());
    }
    Scenario { world, argv, sim, note: format!("conformance {} {:?}", program.template, gen_meta), meta: json!({"generators": gen_meta}) }
}

pub struct RealRun {
    pub exit: Exit,
    pub stdout: Vec<u8>,
    pub stderr: Vec<u8>,
    pub after: Tree,
    pub root: String,
}

pub fn run_real(real_bin: &Path, fakegen: &Path, scenario: &Scenario, tag: &str, n: u64) -> Result<RealRun, String> {
    let dir = scratch_base().join(format!("verif-real-{tag}-{}-{n}", std::process::id()));
    let _ = std::fs::remove_dir_all(&dir);
    std::fs::create_dir_all(&dir).map_err(|e| e.to_string())?;
    let root = dir.join("w");
    let privileged = is_root();
    // the placeholder is replaced by the real executable before modes are applied
    let mut world = scenario.world.clone();
    let mut exes = Vec::new();
    for e in world.entries.iter_mut() {
        if let EntryKind::File { content, .. } = &e.kind {
            if content == "@FAKEGEN@" {
                exes.push(e.path.clone());
            }
        }
    }
    let r = (|| -> Result<RealRun, String> {
        build_world(&root, &world, privileged)?;
        for p in &exes {
            let target = root.join(p);
            let mode = std::fs::metadata(&target).map(|m| m.permissions().mode() & 0o777).unwrap_or(0o755);
            if mode & 0o111 == 0 {
                continue; // the "not executable" case: any content will do
            }
            // A hard link to one master copy: writing a fresh copy per run would race with the forks of the other
            // worker threads (a child that still holds the copy open for writing makes execve fail with ETXTBSY).
            std::fs::remove_file(&target).map_err(|e| e.to_string())?;
            std::fs::hard_link(master_copy(fakegen)?, &target).map_err(|e| format!("link fakegen: {e}"))?;
        }
        let mut cmd = launch(&launcher_path()?, real_bin, &scenario.argv, if privileged { Some(UNPRIVILEGED) } else { None }, 30, 0, false);
        cmd.current_dir(&root).env_clear().stdin(Stdio::null()).stdout(Stdio::piped()).stderr(Stdio::piped());
        let out = cmd.output().map_err(|e| format!("cannot start {}: {e}", real_bin.display()))?;
        let exit = match out.status.code() {
            Some(c) => Exit::Code(c),
            None => Exit::Signal(out.status.signal().unwrap_or(0)),
        };
        Ok(RealRun { exit, stdout: out.stdout, stderr: out.stderr, after: snapshot(&root), root: root.to_string_lossy().into_owned() })
    })();
    remove_run_dir(&dir);
    r
}

#[derive(Default)]
pub struct Conformance {
    pub scenarios: u64,
    pub agree: u64,
    pub disagreements: Vec<String>,
    pub kinds: std::collections::BTreeMap<String, u64>,
}

impl Conformance {
    pub fn to_json(&self) -> Value {
        json!({"scenarios_executed_against_the_real_binary_with_real_processes": self.scenarios, "agree": self.agree, "disagree": self.disagreements.len(), "disagreements": self.disagreements.iter().take(5).collect::<Vec<_>>(), "generator_behaviours_covered": self.kinds})
    }
}

pub fn run(ws: &Ws, exec: &Executor, count: u64, seed: u64, workers: usize) -> Result<Conformance, String> {
    let real = stage_binary(&build_real(ws)?, "real")?;
    let fakegen = fakegen_path(ws);
    if !fakegen.exists() {
        return Err(format!("{} is missing", fakegen.display()));
    }
    let result = std::sync::Mutex::new(Conformance::default());
    let next = std::sync::atomic::AtomicU64::new(0);
    let errors = std::sync::Mutex::new(Vec::<String>::new());
    std::thread::scope(|sc| {
        for _ in 0..workers {
            sc.spawn(|| loop {
                let i = next.fetch_add(1, std::sync::atomic::Ordering::Relaxed);
                if i >= count {
                    break;
                }
                let mut rng = Rng::derive(seed, "conformance", i);
                let s = generate(&mut rng);
                let sim = match exec.run(&s) {
                    Ok(r) => r,
                    Err(e) => {
                        errors.lock().unwrap().push(e);
                        break;
                    }
                };
                let realr = match run_real(&real, &fakegen, &s, "c", i) {
                    Ok(r) => r,
                    Err(e) => {
                        errors.lock().unwrap().push(e);
                        break;
                    }
                };
                let mut diffs = Vec::new();
                // where each execution's world lived is not part of the behaviour
                let norm = |b: &[u8], root: &str| -> Vec<u8> { String::from_utf8_lossy(b).replace(root, "@ROOT@").into_bytes() };
                let (sim_out, sim_err) = (norm(&sim.stdout, &sim.root), norm(&sim.stderr, &sim.root));
                let (real_out, real_err) = (norm(&realr.stdout, &realr.root), norm(&realr.stderr, &realr.root));
                if sim.exit != realr.exit {
                    diffs.push(format!("exit {:?} vs {:?}", sim.exit, realr.exit));
                }
                if sim_err != real_err {
                    let a = String::from_utf8_lossy(&sim_err).into_owned();
                    let b = String::from_utf8_lossy(&real_err).into_owned();
                    let d = a.lines().zip(b.lines()).find(|(x, y)| x != y).map(|(x, y)| format!("'{x}' vs '{y}'")).unwrap_or_else(|| format!("{} vs {} lines", a.lines().count(), b.lines().count()));
                    diffs.push(format!("stderr: {d}"));
                }
                if sim_out != real_out {
                    diffs.push("stdout".into());
                }
                let files = |t: &Tree| -> Vec<(String, Vec<u8>)> { t.iter().filter(|(p, n)| p.starts_with("out/") && n.kind == NodeKind::File).map(|(p, n)| (p.clone(), n.content.clone())).collect() };
                if files(&sim.after) != files(&realr.after) {
                    diffs.push("generated files".into());
                }
                let mut r = result.lock().unwrap();
                r.scenarios += 1;
                if let Some(gs) = s.meta["generators"].as_array() {
                    for g in gs {
                        *r.kinds.entry(g["kind"].as_str().unwrap_or("").to_owned()).or_default() += 1;
                    }
                }
                if diffs.is_empty() {
                    r.agree += 1;
                } else {
                    r.disagreements.push(format!("scenario {i} ({}): {}", s.note, diffs.join("; ")));
                }
            });
        }
    });
    cleanup_master();
    let e = errors.into_inner().unwrap();
    if !e.is_empty() {
        return Err(e.join("; "));
    }
    Ok(result.into_inner().unwrap())
}
