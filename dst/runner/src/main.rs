//! `dst` — runner of the deterministic-simulation checks for icerpc/slicec.
//!
//!   dst setup
//!   dst <C07|C11|C12|C15|C17|C18> [--tier quick|thorough] [--seed N] [--budget-s N] [--workers N] [--replay FILE]
//!   dst selftest
//!
//! Exit status: 0 = the property held on everything explored (known findings are listed, not alarms),
//!              1 = a violation that is not a known finding (a line `VIOLATION property=<id> replay=<path>`),
//!              2 = the harness itself could not do its job (build failure, non-reproducible candidate, ...).

mod c15;
mod c17;
mod catalogue;
mod codec;
mod conformance;
mod evidence;
mod findings;
mod gens;
mod hostcase;
mod props;
mod selftest;
mod simcheck;
mod simrun;
mod ws;

pub struct Opts {
    pub tier: String,
    pub seed: u64,
    pub budget_s: Option<u64>,
    pub workers: usize,
    pub replay: Option<String>,
    pub miri_cases: Option<u64>,
    pub rest: Vec<String>,
}

pub fn now_nanos() -> u128 {
    std::time::SystemTime::now().duration_since(std::time::UNIX_EPOCH).map(|d| d.as_nanos()).unwrap_or(0)
}

fn parse_opts(args: &[String]) -> Opts {
    let mut o = Opts {
        tier: std::env::var("VERIF_TIER").ok().filter(|t| t == "quick" || t == "thorough").unwrap_or_else(|| "quick".into()),
        seed: std::env::var("VERIF_SEED").ok().and_then(|s| s.trim().parse::<u64>().ok()).unwrap_or(1),
        budget_s: std::env::var("VERIF_BUDGET_S").ok().and_then(|s| s.parse().ok()),
        workers: std::env::var("VERIF_WORKERS").ok().and_then(|s| s.parse().ok()).unwrap_or(16),
        replay: None,
        miri_cases: std::env::var("VERIF_MIRI_CASES").ok().and_then(|s| s.parse().ok()),
        rest: Vec::new(),
    };
    let mut i = 0;
    while i < args.len() {
        let take = |i: &mut usize| -> Option<String> {
            *i += 1;
            args.get(*i).cloned()
        };
        match args[i].as_str() {
            "--tier" => {
                if let Some(t) = take(&mut i) {
                    o.tier = t
                }
            }
            "--seed" => o.seed = take(&mut i).and_then(|s| s.parse().ok()).unwrap_or(o.seed),
            "--budget-s" => o.budget_s = take(&mut i).and_then(|s| s.parse().ok()),
            "--workers" => o.workers = take(&mut i).and_then(|s| s.parse().ok()).unwrap_or(o.workers),
            "--replay" => o.replay = take(&mut i),
            "--miri-cases" => o.miri_cases = take(&mut i).and_then(|s| s.parse().ok()),
            other => o.rest.push(other.to_owned()),
        }
        i += 1;
    }
    if o.tier != "quick" && o.tier != "thorough" {
        o.tier = "quick".into();
    }
    o.workers = o.workers.clamp(1, 64);
    o
}

fn real_main() -> Result<i32, String> {
    let args: Vec<String> = std::env::args().skip(1).collect();
    let Some(cmd) = args.first().cloned() else {
        return Err("usage: dst setup | <property id> [--tier quick|thorough] [--seed N] [--replay FILE] | selftest".into());
    };
    let opts = parse_opts(&args[1..]);
    println!("VERIF_SEED={} tier={} command={}", opts.seed, opts.tier, cmd);
    match cmd.as_str() {
        "setup" => {
            let w = ws::Ws::generate()?;
            w.build(&["codecsim", "simhost"])?;
            println!("setup: built codecsim and simhost against {}", w.repo.display());
            // everything a check would otherwise have to build on its first run: the real binary for the stub
            // conformance batch of C18, and the interpreter build of codecsim for the Miri legs of C11 / C12
            conformance::build_real(&w)?;
            println!("setup: built the real slicec binary (stub conformance)");
            codec::warm_miri(&w)?;
            println!("setup: built codecsim for the Miri leg");
            Ok(0)
        }
        "C11" | "C12" => {
            let w = ws::Ws::generate()?;
            if let Some(f) = &opts.replay {
                return codec::replay(&w, &cmd, f);
            }
            codec::run(&w, &cmd, &opts)
        }
        "C18" | "C07" | "C17" | "C15" => {
            let w = ws::Ws::generate()?;
            let prop: Box<dyn simcheck::Property> = match cmd.as_str() {
                "C18" => Box::new(props::C18),
                "C17" => Box::new(c17::C17),
                "C15" => Box::new(c15::C15),
                _ => Box::new(props::C07),
            };
            if let Some(f) = &opts.replay {
                return simcheck::replay(&w, prop.as_ref(), f);
            }
            simcheck::run(&w, prop.as_ref(), &opts)
        }
        "selftest" => {
            let w = ws::Ws::generate()?;
            selftest::run(&w, opts.seed)
        }
        other => Err(format!("unknown command {other}")),
    }
}

fn main() {
    simrun::remove_stale_scratch();
    let r = real_main();
    simrun::unstage_binaries();
    match r {
        Ok(code) => std::process::exit(code),
        Err(e) => {
            eprintln!("HARNESS-ERROR: {e}");
            std::process::exit(2);
        }
    }
}
