//! The single-execution properties: C18 and C07.

use crate::hostcase;
use crate::simcheck::{observable_digest, trace_facts, Case, Outcome, Property};
use crate::simrun::Executor;
use refcodec::util::Rng;
use serde_json::{json, Value};

pub fn host_components() -> Value {
    json!({
        "real": [
            "slicec/src/main.rs, definition_types.rs, slice_file_converter.rs (unmodified, compiled against the shadow std)",
            "slicec library (option parsing, file resolution, parser, patchers, validators, diagnostics, emitter)",
            "slice-codec (request encoding, reply decoding)",
            "clap, console, serde_json",
            "Linux tmpfs + glibc below the interposers (real permission checks as uid 65534)"
        ],
        "stub": [
            "std::process (Command, Child, ChildStdin/Stdout/Stderr, wait, wait_with_output, kill): simulation kernel with bounded pipes and a seeded scheduler",
            "generator executables: scripted simulated processes",
            "getrandom (hash keys), address-space layout (ASLR off + seeded heap shift)",
            "libc open/read/write/stat/realpath/opendir/readdir/rename/... : pass-through with seeded fault injection below the world root"
        ],
        "reference": ["refcodec (independent wire codec + Compiler schema)", "history-based generator verdict", "sequential file-effect model"]
    })
}

pub struct C18;

impl Property for C18 {
    fn id(&self) -> &'static str {
        "C18"
    }
    fn generate(&self, rng: &mut Rng, index: u64, tier: &str) -> Case {
        // the first case numbers are the systematic sweep: a valid reply truncated at every byte
        let replies = if tier == "quick" { 2 } else { 12 };
        let mut base = 0u64;
        for no in 0..replies {
            let len = hostcase::sweep_len(no) as u64;
            if index < base + len {
                return Case::single(hostcase::truncation_case(no, (index - base) as usize, rng));
            }
            base += len;
        }
        Case::single(hostcase::generate_c18(rng))
    }
    fn evaluate(&self, exec: &Executor, case: &Case) -> Result<Outcome, String> {
        let s = &case.scenarios[0];
        let r = exec.run(s)?;
        let j = hostcase::judge(s, &r);
        let mut o = Outcome { violations: j.violations, probes: j.probes, runs: 1, digest: observable_digest(&r), ..Default::default() };
        trace_facts(&r, &mut o);
        *o.stats.entry("generators judged FAILED from the history".into()).or_default() += j.failed_generators as u64;
        *o.stats.entry("generators judged OK from the history".into()).or_default() += j.ok_generators as u64;
        let meta = hostcase::Meta::of(s);
        for g in &meta.generators {
            *o.stats.entry(format!("behaviour: {}", g.kind)).or_default() += 1;
        }
        if meta.fault_free {
            *o.stats.entry("fault-free configuration runs".into()).or_default() += 1;
        }
        Ok(o)
    }
    fn rule(&self) -> String {
        "One case = one seeded scenario: an error-free program from the template catalogue, 1..3 simulated generators each drawn from the behaviour catalogue (ok with 0..3 files, spawn errno, exit code, signal before/mid/after the reply, stderr output of 1 B..200 KB either side of the reply, exits/closes stdin without or after partially reading, empty/truncated/undecodable replies of 12 kinds, OS error while collecting), an output-directory situation (absent, given in 4 spellings, missing, read-only, a plain file; pre-existing identical/different/read-only files, a directory in the way), pipe capacities 1 B..64 KiB, scheduler mode, buggify flags (short/EINTR pipe writes, short/EINTR file I/O) and 0..2 libc faults on generated files. The real main.rs runs against the simulation kernel; the oracle recomputes each generator's verdict from the recorded history and compares errors, exit status, stdin bytes and file effects with a sequential reference. distinct_nontrivial = distinct signatures of the (event kind, actor, result class) sequence among runs in which at least one fault fired or the compiler blocked at least once.".into()
    }
    fn components(&self) -> Value {
        host_components()
    }
    fn expected_probes(&self) -> Vec<&'static str> {
        vec![
            "EPIPE before the first byte",
            "EPIPE in the middle of the request",
            "compiler blocked on a full stdin pipe",
            "compiler blocked while collecting",
            "short write on a generator's stdin",
            "EINTR on a generator's stdin",
            "generator killed by SIGPIPE",
            "libc fault (errno) delivered",
            "short write / EINTR on a generated file",
            "generated file could not be written (world or fault)",
            "identical file skipped",
            "failed generator had decodable files",
        ]
    }
    fn extra_evidence(&self, ws: &crate::ws::Ws, exec: &Executor, opts: &crate::Opts) -> Result<Option<(String, Value)>, String> {
        // validate the model of the process world against real executions (not part of the verdict)
        let n = if opts.tier == "quick" { 64 } else { 600 };
        let conf = crate::conformance::run(ws, exec, n, opts.seed, opts.workers)?;
        if !conf.disagreements.is_empty() {
            println!("WARNING: stub conformance: {} of {} scenarios behave differently with real processes:", conf.disagreements.len(), conf.scenarios);
            for d in conf.disagreements.iter().take(5) {
                println!("WARNING:   {d}");
            }
        }
        Ok(Some(("stub_conformance".into(), conf.to_json())))
    }
}

pub struct C07;

impl Property for C07 {
    fn id(&self) -> &'static str {
        "C07"
    }
    fn generate(&self, rng: &mut Rng, _index: u64, _tier: &str) -> Case {
        // (a recorded finding would have its program forced here, as the first cases of every run)
        Case::single(hostcase::generate_c07(rng, None))
    }
    fn evaluate(&self, exec: &Executor, case: &Case) -> Result<Outcome, String> {
        let s = &case.scenarios[0];
        let r = exec.run(s)?;
        let j = hostcase::judge_c07(s, &r);
        let mut o = Outcome { violations: j.violations, probes: j.probes, runs: 1, digest: observable_digest(&r), ..Default::default() };
        trace_facts(&r, &mut o);
        let meta = hostcase::Meta::of(s);
        *o.stats.entry(format!("class: {}", meta.class)).or_default() += 1;
        *o.stats.entry(format!("template: {}", meta.template)).or_default() += 1;
        if meta.dry_run {
            *o.stats.entry("--dry-run".into()).or_default() += 1;
        }
        *o.stats.entry(format!("generators listed: {}", meta.generators.len())).or_default() += 1;
        // a run is non-trivial for C07 when generation had to be withheld or a generator failed
        o.nontrivial |= meta.class == "error" || meta.class == "io-error" || meta.dry_run;
        Ok(o)
    }
    fn rule(&self) -> String {
        "One case = one seeded scenario: a program of class {clean, warnings only, one kind of error (syntax, unknown attribute, unresolved type, cycle, redefinition in one / across files, rule violations), unreadable input (mode 000, missing, wrong extension, directory as source, EIO/EACCES/EMFILE/ENOMEM injected on open or read, non-UTF-8)} in 1..4 files x 0..3 simulated generators (3/4 well-behaved) x --dry-run x -A lists x -O x diagnostic format. Spawn attempts and write-mode opens are observed at the seams; exit status and totals are compared with the diagnostics actually emitted. distinct_nontrivial = distinct event-sequence signatures among runs where generation had to be withheld (error class, unreadable input, --dry-run), a fault fired or the compiler blocked.".into()
    }
    fn components(&self) -> Value {
        host_components()
    }
}
