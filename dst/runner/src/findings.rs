//! /verif/known_findings.json — genuine defects that are recorded instead of repaired, and the log of repaired ones.
//! Read only; never written at run time. Matching is exact on (property, signature), so a different violation of the
//! same property is still reported.

use crate::evidence::Found;
use serde::Deserialize;
use std::path::Path;

#[derive(Deserialize, Debug, Clone)]
pub struct Known {
    pub property: String,
    pub signature: String,
    pub what: String,
}

#[derive(Deserialize, Debug, Default)]
pub struct File {
    #[serde(default)]
    pub known: Vec<Known>,
    /// "fixed: property=<id> <commit> <what failed>" lines; informational, they suppress nothing.
    #[serde(default)]
    pub fixed: Vec<String>,
}

pub fn load(verif: &Path) -> Result<File, String> {
    let p = verif.join("known_findings.json");
    match std::fs::read_to_string(&p) {
        Ok(t) => serde_json::from_str(&t).map_err(|e| format!("{}: {e}", p.display())),
        Err(_) => Ok(File::default()),
    }
}

/// Prints the protocol lines; returns the number of violations that are NOT known findings.
pub fn report(property: &str, found: &[Found], known: &File) -> u64 {
    let mut unknown = 0;
    let mut printed = std::collections::BTreeSet::new();
    for f in found {
        if !printed.insert(f.signature.clone()) {
            continue;
        }
        if let Some(k) = known.known.iter().find(|k| k.property == property && k.signature == f.signature) {
            println!("KNOWN-FINDING: property={} {} [signature {}; replay {}]", property, k.what, k.signature, f.replay);
        } else {
            unknown += 1;
            println!("VIOLATION property={} replay={}", property, f.replay);
            println!("  signature: {}", f.signature);
            println!("  what: {}", f.what);
        }
    }
    unknown
}
