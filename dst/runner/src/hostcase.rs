//! Scenario generation and oracles for the properties decided on the whole compiler binary with simulated
//! generators: C18 (failing generators) and C07 (generation only after an error-free compile).

use crate::catalogue::{self, Class};
use crate::gens::{self, Behaviour};
use crate::simrun::*;
use refcodec::schema::{decode_reply, encode_args, parse_request, RFile, Reply};
use refcodec::util::Rng;
use serde::{Deserialize, Serialize};
use simproto::*;
use std::collections::{BTreeMap, BTreeSet};

#[derive(Clone, Debug, Serialize, Deserialize, Default, PartialEq)]
pub struct GenMeta {
    pub path: String,
    pub args: Vec<(String, String)>,
    /// catalogue kind (statistics only)
    #[serde(default)]
    pub kind: String,
}

#[derive(Clone, Debug, Serialize, Deserialize, Default, PartialEq)]
pub struct Meta {
    pub property: String,
    pub generators: Vec<GenMeta>,
    #[serde(default)]
    pub output_dir: Option<String>,
    #[serde(default)]
    pub json: bool,
    #[serde(default)]
    pub dry_run: bool,
    /// "clean" | "warn" | "error" | "io-error"
    #[serde(default)]
    pub class: String,
    #[serde(default)]
    pub template: String,
    /// number of warnings the program yields when nothing is allowed, after applying the -A list
    #[serde(default)]
    pub expected_warnings: Option<usize>,
    /// error codes that must appear
    #[serde(default)]
    pub expected_codes: Vec<String>,
    /// world paths (relative) of input files that cannot be read, for io-error worlds
    #[serde(default)]
    pub unreadable: Vec<String>,
    /// fault-free configuration: ample capacities, compiler-first schedule, only OK generators, no faults
    #[serde(default)]
    pub fault_free: bool,
}

impl Meta {
    pub fn of(s: &Scenario) -> Meta {
        serde_json::from_value(s.meta.clone()).unwrap_or_default()
    }
}

#[derive(Clone, Debug, PartialEq, Eq)]
pub struct Violation {
    /// stable class: the signature used for known findings and for minimisation ("same violation class persists")
    pub class: String,
    pub detail: String,
}

fn v(class: impl Into<String>, detail: impl Into<String>) -> Violation {
    Violation { class: class.into(), detail: detail.into() }
}

/// Renders `path,k=v,...` with every ',' and '=' inside a component escaped.
pub fn generator_spec(path: &str, args: &[(String, String)]) -> String {
    let esc = |s: &str| s.replace(',', "\\,").replace('=', "\\=");
    let mut out = esc(path);
    // '=' has no special meaning in the path, but escaping it is legal
    for (k, val) in args {
        out.push(',');
        out.push_str(&esc(k));
        if !val.is_empty() {
            out.push('=');
            out.push_str(&esc(val));
        }
    }
    out
}

pub const GEN_PATHS: &[&str] = &["gen-alpha", "tools/beta.exe", "/usr/local/bin/gamma", "./delta gen", "EPSILON.sh", "we,ird=zeta"];
pub const POOL: &[&str] = &["a.txt", "gen/b.cs", "c.rs", "deep/er/d.txt", "same.txt", "diff.txt", "adir", "ro.txt", "x.txt", "./dot.txt", "gen/./c2.cs", "empty.txt", "rosame.txt"];

/// Deterministic contents of a generated file: a function of (path, version, big).
pub fn content_for(path: &str, version: u8, big: bool) -> Vec<u8> {
    if path == "empty.txt" && version == 0 {
        return Vec::new(); // a generated file may be empty, and an existing empty file is then identical
    }
    let mut c = format!("// {} v{}\n", path, version).into_bytes();
    if big {
        let mut i = 0;
        while c.len() < 70_000 {
            c.extend_from_slice(format!("{path}:{version}:{i} ........................................\n").as_bytes());
            i += 1;
        }
    }
    c
}

fn random_args(rng: &mut Rng) -> Vec<(String, String)> {
    let n = match rng.below(4) {
        0 => 0,
        1 => 1,
        _ => rng.usize_below(4),
    };
    let keys = ["out", "lang", "k", "with,comma", "a=b", "spaced key", "ünï"];
    let vals = ["", "1", "cs", "v,w", "x=y", "two words", "λ"];
    let mut seen = BTreeSet::new();
    let mut out = Vec::new();
    for _ in 0..n {
        let k = *rng.pick(&keys);
        // a key may come twice (`include=a,include=b`): the arguments are a list, every pair must arrive in order
        // (half of the repeats are kept; no draw is added for a new key, so older seeds keep their other choices)
        if seen.insert(k) || rng.chance(1, 2) {
            out.push((k.to_owned(), (*rng.pick(&vals)).to_owned()));
        }
    }
    out
}

fn reply_from_pool(rng: &mut Rng, max_files: usize, allow_big: bool) -> Reply {
    let n = rng.usize_below(max_files + 1);
    let mut files = Vec::new();
    for _ in 0..n {
        let path = *rng.pick(POOL);
        let version = rng.below(2) as u8;
        let big = allow_big && rng.chance(1, 8);
        files.push(RFile { path: path.as_bytes().to_vec(), contents: content_for(path, version, big) });
    }
    // now and then a reply with many files
    if rng.chance(1, 40) {
        for i in 0..40 + rng.usize_below(60) {
            let path = format!("many{i}.txt");
            files.push(RFile { path: path.clone().into_bytes(), contents: content_for(&path, 0, false) });
        }
    }
    let mut reply = gens::random_reply(rng, &[], 0, false);
    reply.files = files;
    reply
}

pub fn reply_from_pool_pub(rng: &mut Rng, max_files: usize) -> Reply {
    reply_from_pool(rng, max_files, false)
}

pub struct Built {
    pub scenario: Scenario,
}

/// Adds the program's files to the world and returns the argv part that lists them.
fn place_program(rng: &mut Rng, world: &mut World, program: &catalogue::Program, allow_refs: bool) -> Vec<String> {
    let in_dir = rng.chance(1, 3);
    let mut argv = Vec::new();
    let mut refs = Vec::new();
    for (i, f) in program.files.iter().enumerate() {
        let path = if in_dir { format!("src/{}", f.name) } else { f.name.clone() };
        world.entries.push(Entry { path: path.clone(), kind: EntryKind::File { content: f.text.clone(), hex: None }, mode: None });
        // the first file is always a source; later ones may be passed as references
        if allow_refs && i > 0 && rng.chance(1, 3) {
            refs.push(path);
        } else {
            argv.push(path);
        }
    }
    // a file that declares no module (empty, comments only, switched off by the preprocessor): legal, compiled, and
    // nothing of it reaches the generators
    if rng.chance(1, 6) {
        let path = if in_dir { "src/blank.slice".to_owned() } else { "blank.slice".to_owned() };
        world.entries.push(Entry { path: path.clone(), kind: EntryKind::File { content: catalogue::blank_text(rng), hex: None }, mode: None });
        if allow_refs && rng.chance(1, 2) {
            refs.push(path);
        } else {
            let at = rng.usize_below(argv.len() + 1);
            argv.insert(at, path);
        }
    }
    // the same file twice in one list: a DuplicateFile warning, which (like any warning) must not change anything else
    if rng.chance(1, 5) && !argv.is_empty() {
        let again = rng.pick(&argv).clone();
        let at = rng.usize_below(argv.len() + 1);
        argv.insert(at, if rng.chance(1, 2) { format!("./{again}") } else { again });
    }
    for r in &refs {
        argv.push("-R".into());
        argv.push(r.clone());
    }
    if rng.chance(1, 8) && !refs.is_empty() {
        argv.push("-R".into());
        argv.push(format!("./{}", rng.pick(&refs)));
    }
    argv
}

fn request_size_hint(program: &catalogue::Program) -> usize {
    program.files.iter().map(|f| f.text.len()).sum::<usize>() / 2 + 60
}

/// Output-directory situation of the run. Returns the -O value and what must pre-exist.
fn place_output(rng: &mut Rng, world: &mut World) -> Option<String> {
    let situation = rng.below(8);
    let (dir_opt, base): (Option<String>, String) = match situation {
        0 | 1 => (None, String::new()),
        2 | 3 | 4 => {
            let spelled = *rng.pick(&["out", "./out", "out/", "out/../out"]);
            world.entries.push(Entry { path: "out".into(), kind: EntryKind::Dir, mode: None });
            (Some(spelled.to_owned()), "out/".into())
        }
        5 => (Some("missing-dir".into()), "missing-dir/".into()),
        6 => {
            world.entries.push(Entry { path: "ro".into(), kind: EntryKind::Dir, mode: Some(0o555) });
            (Some("ro".into()), "ro/".into())
        }
        _ => {
            // the "directory" is a regular file
            world.entries.push(Entry { path: "notadir".into(), kind: EntryKind::File { content: "plain file".into(), hex: None }, mode: None });
            (Some("notadir".into()), "notadir/".into())
        }
    };
    if situation <= 4 || situation == 6 {
        // pre-existing files below the output root: identical, different, a directory in the way, sub-directories
        let pre: &[(&str, u8)] = &[("same.txt", 0), ("diff.txt", 7), ("a.txt", 1), ("x.txt", 0), ("empty.txt", 0), ("empty.txt", 7)];
        for (name, ver) in pre {
            if rng.chance(1, 2) && !world.entries.iter().any(|e| e.path == format!("{base}{name}")) {
                let content = if *ver == 7 { b"something else entirely\n".to_vec() } else { content_for(name, *ver, false) };
                world.entries.push(Entry { path: format!("{base}{name}"), kind: EntryKind::File { content: String::from_utf8(content).unwrap(), hex: None }, mode: None });
            }
        }
        if rng.chance(1, 2) {
            world.entries.push(Entry { path: format!("{base}adir"), kind: EntryKind::Dir, mode: None });
        }
        if rng.chance(1, 2) {
            world.entries.push(Entry { path: format!("{base}gen"), kind: EntryKind::Dir, mode: None });
        }
        if rng.chance(1, 4) {
            world.entries.push(Entry { path: format!("{base}deep/er"), kind: EntryKind::Dir, mode: None });
        }
        if rng.chance(1, 3) {
            // read-only AND identical to version 0 of what a generator may send: nothing needs writing, nothing fails
            world.entries.push(Entry { path: format!("{base}rosame.txt"), kind: EntryKind::File { content: String::from_utf8(content_for("rosame.txt", 0, false)).unwrap(), hex: None }, mode: Some(0o444) });
        }
        if rng.chance(1, 4) {
            world.entries.push(Entry { path: format!("{base}ro.txt"), kind: EntryKind::File { content: "read-only\n".into(), hex: None }, mode: Some(0o444) });
        }
    }
    dir_opt
}

fn base_sim(rng: &mut Rng) -> Sim {
    Sim {
        hash_seed: rng.next_u64(),
        heap_shift: (rng.below(64) * 4096 + rng.below(4096)) as usize,
        sched: *rng.pick(&[Sched::Random, Sched::Random, Sched::CompilerFirst, Sched::GeneratorsEager]),
        choice_seed: rng.next_u64(),
        buggify: Buggify {
            short_pipe_write: rng.chance(1, 3),
            eintr_pipe_write: rng.chance(1, 4),
            transparent_file_read: rng.chance(1, 4),
            transparent_file_write: rng.chance(1, 3),
        },
        step_budget: 200_000,
        ..Default::default()
    }
}

/// Where a reply path lands in the world (relative to the root), given the -O value.
pub fn landing_path(output_dir: &Option<String>, reply_path: &str) -> String {
    let joined = match output_dir {
        Some(d) => format!("{}/{}", d.trim_end_matches('/'), reply_path),
        None => reply_path.to_owned(),
    };
    let mut parts: Vec<&str> = Vec::new();
    for c in joined.split('/') {
        match c {
            "" | "." => {}
            ".." => {
                parts.pop();
            }
            x => parts.push(x),
        }
    }
    parts.join("/")
}

pub fn generate_c18(rng: &mut Rng) -> Scenario {
    let fault_free = rng.chance(1, 8);
    let mut world = World::default();
    // C18 assumes an error-free compile: clean and warning-only programs
    let templates = catalogue::by_class(true, true, false);
    let program = if rng.chance(1, 4) { catalogue::random_program(rng, 0) } else { catalogue::instantiate(*rng.pick(&templates), rng) };
    let mut argv = place_program(rng, &mut world, &program, true);
    let hint = request_size_hint(&program);
    let small_caps = !fault_free && hint < 3000;
    let output_dir = if fault_free {
        if rng.chance(1, 2) {
            world.entries.push(Entry { path: "out".into(), kind: EntryKind::Dir, mode: None });
            Some("out".to_owned())
        } else {
            None
        }
    } else {
        place_output(rng, &mut world)
    };
    let n_gens = 1 + rng.usize_below(3);
    let mut sim = base_sim(rng);
    let mut metas = Vec::new();
    let mut paths: Vec<&str> = GEN_PATHS.to_vec();
    rng.shuffle(&mut paths);
    let mut written_paths: Vec<String> = Vec::new();
    for i in 0..n_gens {
        // sometimes the same generator is listed twice
        let path = if i > 0 && rng.chance(1, 8) { metas.last().map(|m: &GenMeta| m.path.clone()).unwrap() } else { paths[i].to_owned() };
        let mut args = random_args(rng);
        // two listings of one path always differ in their arguments: a compiler may start its generators in any
        // order, and the arguments a process received are then the only thing that tells the listings apart
        if metas.iter().any(|m: &GenMeta| m.path == path && m.args == args) {
            args.push(("listing".to_owned(), i.to_string()));
        }
        let reply = reply_from_pool(rng, 3, hint < 20_000);
        let b: Behaviour = if fault_free || rng.chance(2, 5) { gens::ok(rng, &reply, small_caps) } else { gens::failing(rng, &reply, hint, small_caps) };
        if b.kind == "ok" {
            written_paths.extend(reply.files.iter().map(|f| String::from_utf8_lossy(&f.path).into_owned()));
        }
        let mut g = b.gen.clone();
        gens::normalise(&mut g, hint);
        if fault_free {
            g.stdin_cap = 1 << 20;
            g.stdout_cap = 1 << 20;
            g.stderr_cap = 1 << 20;
        }
        sim.generators.entry(path.clone()).or_default().push(g);
        argv.push(if rng.chance(1, 2) { "-G".into() } else { "--generator".into() });
        argv.push(generator_spec(&path, &args));
        metas.push(GenMeta { path, args, kind: b.kind.to_owned() });
    }
    if let Some(d) = &output_dir {
        argv.push(if rng.chance(1, 2) { "-O".into() } else { "--output-dir".into() });
        argv.push(d.clone());
    }
    let json = rng.chance(1, 5);
    if json {
        argv.push("--diagnostic-format".into());
        argv.push("json".into());
    }
    // allowing lints (even all of them) silences warnings, never the error for a generator that failed
    if rng.chance(1, 5) {
        for _ in 0..1 + rng.usize_below(2) {
            argv.push(if rng.chance(1, 2) { "-A".into() } else { "--allow".into() });
            argv.push((*rng.pick(LINTS)).to_owned());
        }
    }
    if rng.chance(1, 8) {
        argv.push("--disable-color".into());
    }
    if fault_free {
        sim.sched = Sched::CompilerFirst;
        sim.buggify = Buggify::default();
    } else if rng.chance(1, 4) {
        // libc faults on generated files
        // place the fault inside an operation that will happen: prefer files a well-behaved generator writes
        let targets: Vec<String> = if written_paths.is_empty() || rng.chance(1, 4) {
            POOL.iter().map(|p| landing_path(&output_dir, p)).collect()
        } else {
            written_paths.iter().map(|p| landing_path(&output_dir, p)).collect()
        };
        for _ in 0..1 + rng.usize_below(2) {
            let path = rng.pick(&targets).clone();
            let fault = match rng.below(6) {
                0 => FsFault { op: FsOp::OpenWrite, path, nth: 1, action: FsAction::Errno { errno: *rng.pick(&[libc::EACCES, libc::ENOSPC, libc::EMFILE, libc::EIO]) } },
                1 => FsFault { op: FsOp::Write, path, nth: 1 + rng.below(2) as u32, action: FsAction::Errno { errno: *rng.pick(&[libc::ENOSPC, libc::EIO, libc::EDQUOT]) } },
                2 => FsFault { op: FsOp::Write, path, nth: 1, action: FsAction::Short { n: 1 + rng.usize_below(10) } },
                3 => FsFault { op: FsOp::Write, path, nth: 1, action: FsAction::Eintr },
                4 => FsFault { op: FsOp::OpenRead, path, nth: 1, action: FsAction::Errno { errno: *rng.pick(&[libc::EIO, libc::EACCES]) } },
                _ => FsFault { op: FsOp::Read, path, nth: 1, action: FsAction::Errno { errno: libc::EIO } },
            };
            sim.fs_faults.push(fault);
        }
    }
    // swarm: shuffle the order of options and positionals a little (options may come first)
    if rng.chance(1, 4) {
        let n_pos = argv.iter().position(|a| a.starts_with('-')).unwrap_or(argv.len());
        let pos: Vec<String> = argv.drain(..n_pos).collect();
        argv.extend(pos);
    }
    let class = match program.class {
        Class::Clean => "clean",
        Class::WarnOnly(_) => "warn",
        Class::Error => "error",
    };
    let meta = Meta {
        property: "C18".into(),
        generators: metas,
        output_dir,
        json,
        dry_run: false,
        class: class.into(),
        template: program.template.into(),
        expected_warnings: match program.class {
            Class::WarnOnly(n) => Some(n),
            Class::Clean => Some(0),
            _ => None,
        },
        expected_codes: vec![],
        unreadable: vec![],
        fault_free,
    };
    Scenario { world, argv, sim, note: format!("C18 {} gens={:?}", program.template, meta.generators.iter().map(|g| g.kind.clone()).collect::<Vec<_>>()), meta: serde_json::to_value(&meta).unwrap() }
}

// ------------------------------------------------------------------------------------------------------------------
// Reference verdict from the recorded history
// ------------------------------------------------------------------------------------------------------------------

#[derive(Clone, Debug)]
pub enum Verdict {
    Ok(Reply),
    Failed(String),
    /// the statement does not say (a decodable reply carrying an Error-level diagnostic of the generator's own)
    Unspecified,
}

/// Files that decode from the front of a reply, stopping at the first problem.
pub fn lenient_files(stdout: &[u8]) -> Vec<RFile> {
    let mut r = refcodec::dynval::Reader::new(stdout);
    let mut out = Vec::new();
    let Ok(n) = r.size() else { return out };
    for _ in 0..n.min(10_000) {
        let Ok(path) = r.string() else { break };
        let Ok(contents) = r.string() else { break };
        if r.skip_tagged().is_err() {
            break;
        }
        out.push(RFile { path: path.into_bytes(), contents: contents.into_bytes() });
    }
    out
}

pub fn verdict(h: &GenHistory) -> Verdict {
    if let Some(e) = h.spawn_errno {
        return Verdict::Failed(format!("spawn failed with errno {e}"));
    }
    if let Some(e) = h.stdin_error {
        return Verdict::Failed(format!("writing to its stdin failed with errno {e}"));
    }
    if h.collect_errno != 0 {
        return Verdict::Failed(format!("collecting its output failed with errno {}", h.collect_errno));
    }
    if !h.stderr.is_empty() {
        return Verdict::Failed(format!("it wrote {} bytes to stderr", h.stderr.len()));
    }
    if h.stderr_unseen {
        return Verdict::Failed("it wrote to stderr (which the compiler had not piped, so it cannot have noticed)".into());
    }
    match h.status {
        Some(0) => {}
        Some(s) => return Verdict::Failed(format!("wait status {s:#x}")),
        None => return Verdict::Failed("never collected".into()),
    }
    match decode_reply(&h.stdout) {
        Ok((reply, _)) if reply.diagnostics.iter().any(|d| d.level >= 2) => Verdict::Unspecified,
        // A corrupted reply that still decodes may name files no sensible generator would: absolute paths (they
        // leave the hermetic world), names the OS cannot create, paths that climb out of the output directory.
        // What becomes of those is not fixed by the statement; nothing beyond "no crash, no hang" is judged then.
        Ok((reply, _)) if reply.files.iter().any(|f| outlandish_path(&f.path)) => Verdict::Unspecified,
        Ok((reply, _)) => Verdict::Ok(reply),
        Err(e) => Verdict::Failed(format!("reply of {} bytes does not decode: {e}", h.stdout.len())),
    }
}

fn outlandish_path(raw: &[u8]) -> bool {
    let Ok(p) = std::str::from_utf8(raw) else { return true };
    if p.is_empty() || p.starts_with('/') || p.contains('\0') || p.len() > 1000 || p.split('/').any(|c| c.len() > 200) {
        return true;
    }
    // climbing above the directory it is joined to
    let mut depth: i64 = 0;
    for c in p.split('/') {
        match c {
            "" | "." => {}
            ".." => depth -= 1,
            _ => depth += 1,
        }
        if depth < 0 {
            return true;
        }
    }
    depth <= 0 || p.ends_with('/') || matches!(p.rsplit('/').next(), Some(".") | Some(".."))
}

fn fs_faults_fired_on(r: &RunResult, path: &str) -> bool {
    r.trace.iter().any(|e| matches!(&e.kind, Ev::Fs { path: p, fault, .. } if p == path && !fault.is_empty() && fault != "short" && fault != "eintr"))
}

fn any_fault_on(r: &RunResult, path: &str) -> bool {
    r.trace.iter().any(|e| matches!(&e.kind, Ev::Fs { path: p, fault, .. } if p == path && !fault.is_empty()))
}

fn write_events_on(r: &RunResult, path: &str) -> Vec<String> {
    if path.is_empty() {
        // events on descriptors outside the world carry an empty path: "" names nothing
        return Vec::new();
    }
    r.trace
        .iter()
        .filter_map(|e| match &e.kind {
            Ev::Fs { op, path: p, path2, flags, .. } => {
                let writes = match op.as_str() {
                    // Opening with write access changes nothing by itself (an implementation may open read+write,
                    // compare, and decide): only truncation on open is an effect. Writes are events of their own.
                    "open" => flags.contains('t'),
                    "write" | "truncate" | "unlink" | "mkdir" | "rmdir" | "symlink" => true,
                    "rename" | "link" => true,
                    _ => false,
                };
                if writes && (p == path || path2 == path) {
                    Some(format!("{op}({flags})"))
                } else {
                    None
                }
            }
            _ => None,
        })
        .collect()
}

/// True if the world, as it was before the run, makes a plain `create + write` of this path impossible for the
/// unprivileged compiler (the statement promises nothing then, except that the failure is reported).
fn create_blocked(before: &Tree, path: &str) -> bool {
    // names no file can have (a corrupted reply that still decodes may ask for them)
    let unusable = path.is_empty()
        || path.contains('\0')
        || path.contains('\u{FFFD}')
        || path.ends_with('/')
        || path.split('/').any(|c| c.len() > 255)
        || matches!(path.rsplit('/').next(), Some("") | Some(".") | Some(".."));
    if unusable {
        return true;
    }
    if let Some(n) = before.get(path) {
        match n.kind {
            NodeKind::File => {
                if n.mode & 0o200 == 0 {
                    return true;
                }
                // an existing writable file in a directory that is not writable: overwriting in place works, writing
                // through a temporary file and renaming does not. Both implementations are right; fall through to
                // the directory checks so that a reported failure is accepted.
            }
            _ => return true, // a directory (or something else) is in the way
        }
    }
    // walk up: every ancestor must be an existing directory; the immediate parent must be writable + searchable
    let mut cur = path.to_owned();
    let mut first = true;
    while let Some(i) = cur.rfind('/') {
        cur.truncate(i);
        match before.get(&cur) {
            Some(n) if n.kind == NodeKind::Dir => {
                if first && (n.mode & 0o200 == 0 || n.mode & 0o100 == 0) {
                    return true;
                }
                if n.mode & 0o100 == 0 {
                    return true;
                }
            }
            _ => return true, // missing, or not a directory
        }
        first = false;
    }
    false
}

pub struct Judged {
    pub violations: Vec<Violation>,
    /// probe counters for the evidence ("this rare condition was hit")
    pub probes: Vec<&'static str>,
    pub failed_generators: usize,
    pub ok_generators: usize,
}

/// Oracle shared by C18 and C07 (C07 adds its own clauses on top).
pub fn judge(s: &Scenario, r: &RunResult) -> Judged {
    let meta = Meta::of(s);
    let mut out = Judged { violations: vec![], probes: vec![], failed_generators: 0, ok_generators: 0 };
    let vio = &mut out.violations;

    // ---- 6. no crash, no hang
    if let Some(c) = r.crashed() {
        let class = if c.starts_with("HANG") {
            "hang".to_owned()
        } else if c.starts_with("panic") {
            // keep the panic site, drop the message details
            let site = c.split(" at ").nth(1).and_then(|s| s.split(':').next()).unwrap_or("").rsplit('/').next().unwrap_or("").to_owned();
            format!("crash/panic@{site}")
        } else if c.starts_with("timeout") {
            "real-hang".to_owned()
        } else if c.starts_with("step budget") {
            "no-progress-within-step-budget".to_owned()
        } else {
            format!("crash/{}", c.split_whitespace().take(4).collect::<Vec<_>>().join("-"))
        };
        // the recorded findings are matched on the exact program as well, so that any other crash stays a violation
        let class = if meta.template.starts_with("abort-") { format!("{class}:{}", meta.template) } else { class };
        let detail = match r.hang_detail() {
            Some(d) => format!("{c}: {d}"),
            None => c,
        };
        vio.push(v(class, detail));
        return out;
    }
    if r.usage_error() {
        vio.push(v("usage-error", format!("the compiler rejected a well-formed command line: {}", String::from_utf8_lossy(&r.stderr).lines().next().unwrap_or(""))));
        return out;
    }
    if r.trace_garbled {
        vio.push(v("harness/trace-garbled", "the trace could not be parsed"));
        return out;
    }

    let diags = parse_diagnostics(&r.stderr, meta.json);
    let errors: Vec<&Diag> = diags.iter().filter(|d| d.error).collect();
    let hist = generator_histories(&r.trace);

    // probes
    if r.trace.iter().any(|e| matches!(&e.kind, Ev::StdinWrite { result, total, .. } if *result == -(libc::EPIPE as i64) && *total == 0)) {
        out.probes.push("EPIPE before the first byte");
    }
    if r.trace.iter().any(|e| matches!(&e.kind, Ev::StdinWrite { result, total, .. } if *result == -(libc::EPIPE as i64) && *total > 0)) {
        out.probes.push("EPIPE in the middle of the request");
    }
    if r.trace.iter().any(|e| matches!(&e.kind, Ev::Blocked { op, .. } if op == "stdin-write")) {
        out.probes.push("compiler blocked on a full stdin pipe");
    }
    if r.trace.iter().any(|e| matches!(&e.kind, Ev::Blocked { op, .. } if op == "wait-with-output")) {
        out.probes.push("compiler blocked while collecting");
    }
    if r.trace.iter().any(|e| matches!(&e.kind, Ev::StdinWrite { fault, .. } if fault == "short")) {
        out.probes.push("short write on a generator's stdin");
    }
    if r.trace.iter().any(|e| matches!(&e.kind, Ev::StdinWrite { fault, .. } if fault == "eintr")) {
        out.probes.push("EINTR on a generator's stdin");
    }
    if r.trace.iter().any(|e| matches!(&e.kind, Ev::Gen { what, .. } if what == "sigpipe")) {
        out.probes.push("generator killed by SIGPIPE");
    }
    if r.trace.iter().any(|e| matches!(&e.kind, Ev::Fs { fault, .. } if fault == "errno")) {
        out.probes.push("libc fault (errno) delivered");
    }
    if r.trace.iter().any(|e| matches!(&e.kind, Ev::Fs { fault, op, .. } if (fault == "short" || fault == "eintr") && op == "write")) {
        out.probes.push("short write / EINTR on a generated file");
    }

    // ---- 1. spawn attempts
    let should_generate = !meta.dry_run && meta.class != "error" && meta.class != "io-error";
    let mut listed: BTreeMap<&str, usize> = BTreeMap::new();
    for g in &meta.generators {
        *listed.entry(g.path.as_str()).or_default() += 1;
    }
    if should_generate {
        for (p, n) in &listed {
            let attempts = hist.iter().filter(|h| h.program == *p).count();
            let successes = hist.iter().filter(|h| h.program == *p && h.spawn_errno.is_none()).count();
            if attempts < *n {
                vio.push(v("generator-not-started", format!("'{p}' is listed {n} time(s) but was started {attempts} time(s)")));
            }
            if successes > *n {
                vio.push(v("generator-started-more-than-once", format!("'{p}' is listed {n} time(s) but {successes} processes were started")));
            }
        }
    }
    for h in &hist {
        if !listed.contains_key(h.program.as_str()) {
            vio.push(v("unlisted-program-started", format!("the compiler tried to start '{}'", h.program)));
        }
        if h.spawn_errno.is_none() && (h.stdio.0 != "piped" || h.stdio.1 != "piped" || h.stdio.2 != "piped") {
            // not a violation by itself: recorded so that surprising stdio set-ups are visible in the detail of others
        }
    }
    if !vio.is_empty() {
        return out;
    }

    // ---- verdicts, in spawn order; the k-th attempt for a path belongs to the k-th listing of that path
    let verdicts: Vec<Verdict> = hist.iter().map(verdict).collect();
    // Which listing does each process belong to? A path that is listed once is unambiguous. When a path is listed
    // several times (a compiler may start its generators concurrently, in any order) the arguments a process
    // received tell the listings apart; failing that, order of appearance.
    let mut listing_of: Vec<Option<usize>> = vec![None; hist.len()];
    {
        let mut taken: BTreeSet<usize> = BTreeSet::new();
        let args_of = |h: &GenHistory| -> Option<Vec<(String, String)>> { parse_request(&h.stdin_accepted).ok().map(|r| r.args) };
        // first pass: exact argument matches
        for (hi, h) in hist.iter().enumerate() {
            let candidates: Vec<usize> = meta.generators.iter().enumerate().filter(|(_, g)| g.path == h.program).map(|(i, _)| i).collect();
            if candidates.len() == 1 {
                if taken.insert(candidates[0]) {
                    listing_of[hi] = Some(candidates[0]);
                }
                continue;
            }
            if let Some(a) = args_of(h) {
                if let Some(l) = candidates.iter().find(|l| !taken.contains(l) && meta.generators[**l].args == a) {
                    taken.insert(*l);
                    listing_of[hi] = Some(*l);
                }
            }
        }
        // second pass: whatever is left, in order
        for (hi, h) in hist.iter().enumerate() {
            if listing_of[hi].is_none() {
                if let Some(l) = meta.generators.iter().enumerate().filter(|(i, g)| g.path == h.program && !taken.contains(i)).map(|(i, _)| i).next() {
                    taken.insert(l);
                    listing_of[hi] = Some(l);
                }
            }
        }
    }
    // replies are applied in the order the generators are LISTED, whatever order they were started or finished in
    let mut in_list_order: Vec<usize> = (0..hist.len()).collect();
    in_list_order.sort_by_key(|i| (listing_of[*i].unwrap_or(usize::MAX), *i));
    for vd in &verdicts {
        match vd {
            Verdict::Ok(_) => out.ok_generators += 1,
            Verdict::Failed(_) => out.failed_generators += 1,
            Verdict::Unspecified => {}
        }
    }
    if verdicts.iter().any(|v| matches!(v, Verdict::Unspecified)) {
        // whether such a generator counts as failed, and whether its files are written, is not fixed by the
        // statement: nothing beyond "no crash, no hang, everybody was started" is judged in this run
        out.probes.push("reply with an Error-level generator diagnostic (unspecified)");
        return out;
    }

    // ---- 2. every failed generator is named by an error; generators that did fine are not blamed
    for p in listed.keys() {
        let failed: Vec<&Verdict> = hist.iter().zip(&verdicts).filter(|(h, vd)| h.program == *p && matches!(vd, Verdict::Failed(_))).map(|(_, vd)| vd).collect();
        let named = errors.iter().filter(|d| d.message.contains(p)).count();
        if named < failed.len() {
            vio.push(v(
                "failed-generator-not-reported",
                format!("'{p}' failed {} time(s) ({:?}) but only {named} error(s) name it; errors: {:?}", failed.len(), failed, errors.iter().map(|d| d.message.clone()).collect::<Vec<_>>()),
            ));
        }
        if failed.is_empty() && named > 0 {
            vio.push(v("working-generator-reported-as-failed", format!("'{p}' did everything right but an error names it: {:?}", errors.iter().find(|d| d.message.contains(p)).map(|d| &d.message))));
        }
    }

    // ---- 3. file effects against the sequential reference
    // expected writes in list order
    let mut final_bytes: BTreeMap<String, Vec<u8>> = BTreeMap::new();
    let mut all_writes: BTreeMap<String, Vec<Vec<u8>>> = BTreeMap::new();
    let mut reply_path_of: BTreeMap<String, String> = BTreeMap::new();
    for i in &in_list_order {
        let vd = &verdicts[*i];
        if let Verdict::Ok(reply) = vd {
            for f in &reply.files {
                let rp = String::from_utf8_lossy(&f.path).into_owned();
                let lp = landing_path(&meta.output_dir, &rp);
                final_bytes.insert(lp.clone(), f.contents.clone());
                all_writes.entry(lp.clone()).or_default().push(f.contents.clone());
                reply_path_of.insert(lp, rp);
            }
        }
    }
    let mut blocked_paths = 0;
    for (lp, bytes) in &final_bytes {
        let good = matches!(r.after.get(lp), Some(n) if n.kind == NodeKind::File && n.content == *bytes);
        if good {
            continue;
        }
        let excused = create_blocked(&r.before, lp) || fs_faults_fired_on(r, lp);
        let rp = &reply_path_of[lp];
        let reported = errors.iter().any(|d| d.message.contains(rp.as_str())) && r.exit != Exit::Code(0);
        if excused {
            blocked_paths += 1;
            out.probes.push("generated file could not be written (world or fault)");
            if !reported {
                vio.push(v("unwritable-file-not-reported", format!("'{lp}' could not be written (world or injected fault) but no error names '{rp}' (exit {:?})", r.exit)));
            }
        } else {
            let have = r.after.get(lp).map(|n| format!("{:?} of {} bytes", n.kind, n.content.len())).unwrap_or_else(|| "nothing".into());
            vio.push(v("generated-file-missing-or-wrong", format!("'{lp}' should hold {} bytes from a successfully decoded reply; the world has {have}", bytes.len())));
        }
    }
    // (b) identical files stay untouched
    for (lp, writes) in &all_writes {
        if let Some(b) = r.before.get(lp) {
            if b.kind == NodeKind::File && writes.iter().all(|w| *w == b.content) && !any_fault_on(r, lp) {
                out.probes.push("identical file skipped");
                let a = r.after.get(lp);
                let untouched = matches!(a, Some(a) if a.ino == b.ino && a.mtime_ns == b.mtime_ns && a.ctime_ns == b.ctime_ns && a.content == b.content);
                let evs = write_events_on(r, lp);
                if !untouched || !evs.is_empty() {
                    vio.push(v("identical-file-touched", format!("'{lp}' already held the generated bytes but was rewritten ({evs:?}; inode/mtime/ctime unchanged: {untouched})")));
                }
            }
        }
    }
    // (c) nothing from a reply that was not successfully decoded / from a failed generator
    let mut forbidden: BTreeSet<String> = BTreeSet::new();
    for (h, vd) in hist.iter().zip(&verdicts) {
        if let Verdict::Failed(_) = vd {
            for f in lenient_files(&h.stdout) {
                // (what a lenient reading finds in a reply that does not decode can be any bytes: names that no
                // file in the world can have say nothing about the world)
                if outlandish_path(&f.path) {
                    continue;
                }
                let lp = landing_path(&meta.output_dir, &String::from_utf8_lossy(&f.path));
                if lp.is_empty() {
                    continue;
                }
                if !final_bytes.contains_key(&lp) {
                    forbidden.insert(lp);
                }
            }
        }
    }
    for lp in &forbidden {
        out.probes.push("failed generator had decodable files");
        let same = match (r.before.get(lp), r.after.get(lp)) {
            (None, None) => true,
            (Some(b), Some(a)) => a.kind == b.kind && a.content == b.content && a.ino == b.ino && a.mtime_ns == b.mtime_ns,
            _ => false,
        };
        let evs = write_events_on(r, lp);
        if !same || !evs.is_empty() {
            vio.push(v("file-written-from-failed-generator", format!("'{lp}' occurs only in the reply of a generator that failed, yet it was written ({evs:?})")));
        }
    }
    // (a) nothing else changed: every other path keeps kind and content (extra directories are allowed)
    for (p, a) in &r.after {
        if final_bytes.contains_key(p) || forbidden.contains(p) {
            continue;
        }
        match r.before.get(p) {
            None => {
                if a.kind != NodeKind::Dir {
                    vio.push(v("unexpected-file-created", format!("'{p}' ({:?}, {} bytes) appeared although no successfully decoded reply contains it", a.kind, a.content.len())));
                }
            }
            Some(b) => {
                if b.kind != a.kind || b.content != a.content {
                    vio.push(v("unrelated-file-modified", format!("'{p}' was changed")));
                }
            }
        }
    }
    for p in r.before.keys() {
        if !r.after.contains_key(p) {
            vio.push(v("file-removed", format!("'{p}' disappeared")));
        }
    }

    // ---- 4. every generator received the identical request followed by its own arguments
    let mut commons: Vec<(usize, Vec<u8>)> = Vec::new();
    for (i, h) in hist.iter().enumerate() {
        if h.spawn_errno.is_some() || !h.stdin_known {
            continue;
        }
        let Some(li) = listing_of[i] else { continue };
        let want_args = &meta.generators[li].args;
        // A stdin that was still open when the compiler exited (an abandoned child, a detached feeder thread) may
        // hold any prefix of the request; a stdin the compiler closed must hold all of it.
        if h.stdin_error.is_none() && !h.stdin_open_at_exit {
            match parse_request(&h.stdin_accepted) {
                Err(e) => vio.push(v("request-not-decodable", format!("the {} bytes sent to '{}' do not decode as a request: {e}", h.stdin_accepted.len(), h.program))),
                Ok(req) => {
                    if req.end != h.stdin_accepted.len() {
                        vio.push(v("request-has-trailing-bytes", format!("'{}' received {} bytes after its arguments", h.program, h.stdin_accepted.len() - req.end)));
                    }
                    if req.operation != "generateCode" {
                        vio.push(v("request-wrong-operation", format!("operation '{}'", req.operation)));
                    }
                    if &req.args != want_args {
                        vio.push(v("arguments-altered", format!("'{}' was given {:?} on the command line but received {:?}", h.program, want_args, req.args)));
                    }
                    commons.push((i, h.stdin_accepted[..req.args_start].to_vec()));
                }
            }
        }
    }
    if let Some((_, first)) = commons.first() {
        for (i, c) in &commons {
            if c != first {
                vio.push(v("generators-received-different-requests", format!("'{}' and '{}' did not receive the same request bytes", hist[commons[0].0].program, hist[*i].program)));
                break;
            }
        }
        // a generator whose stdin broke received a prefix of what it should have received
        for (i, h) in hist.iter().enumerate() {
            if h.spawn_errno.is_none() && h.stdin_known && (h.stdin_error.is_some() || h.stdin_open_at_exit) {
                if let Some(li) = listing_of[i] {
                    let mut full = first.clone();
                    full.extend(encode_args(&meta.generators[li].args));
                    if !full.starts_with(&h.stdin_accepted) {
                        vio.push(v("partial-request-not-a-prefix", format!("'{}' received {} bytes that are not a prefix of its request", h.program, h.stdin_accepted.len())));
                    }
                }
            }
        }
    }

    // ---- 5. exit status <=> errors emitted; no error without a cause
    let exit_nonzero = r.exit != Exit::Code(0);
    if exit_nonzero != !errors.is_empty() {
        vio.push(v(
            if errors.is_empty() { "nonzero-exit-without-error" } else { "zero-exit-despite-errors" },
            format!("exit {:?} with {} error diagnostic(s): {:?}", r.exit, errors.len(), errors.iter().map(|d| d.message.clone()).collect::<Vec<_>>()),
        ));
    }
    // a write that failed (world or injected fault) is a cause even if a later generator rewrote the file correctly
    // (a file that already holds exactly what every reply wants in it needs no write, so it cannot be a cause)
    let needs_no_write = |lp: &String, writes: &Vec<Vec<u8>>| matches!(r.before.get(lp), Some(b) if b.kind == NodeKind::File && writes.iter().all(|w| *w == b.content));
    let write_trouble = all_writes.iter().any(|(lp, writes)| (create_blocked(&r.before, lp) && !needs_no_write(lp, writes)) || fs_faults_fired_on(r, lp));
    if should_generate && out.failed_generators == 0 && blocked_paths == 0 && !write_trouble && !errors.is_empty() {
        vio.push(v("error-without-cause", format!("clean compile, every generator did fine, yet: {:?}", errors.iter().map(|d| d.message.clone()).collect::<Vec<_>>())));
    }
    out
}

// ------------------------------------------------------------------------------------------------------------------
// C07
// ------------------------------------------------------------------------------------------------------------------

pub const LINTS: &[&str] = &["All", "Deprecated", "BrokenDocLink", "IncorrectDocComment", "MalformedDocComment", "DuplicateFile"];

pub fn generate_c07(rng: &mut Rng, forced_template: Option<&'static str>) -> Scenario {
    let mut world = World::default();
    let mut sim = base_sim(rng);
    // which kind of world (a forced template is an erroneous program)
    let kind = if forced_template.is_some() { 5 } else { rng.below(10) };
    let (want_clean, want_warn, want_err) = match kind {
        0..=2 => (true, false, false),
        3..=4 => (false, true, false),
        5..=7 => (false, false, true),
        _ => (true, true, false), // io-error worlds are built on a readable program
    };
    let io_error = kind >= 8;
    let templates: Vec<&'static str> = catalogue::by_class(want_clean, want_warn, want_err);
    let program = if let Some(t) = forced_template {
        catalogue::instantiate(t, rng)
    } else if rng.chance(1, 4) {
        // a seeded random program; an injected error (cycle / redefinition / unresolved type) when an error is wanted
        let inject = if want_err { 1 + rng.below(3) as u8 } else { 0 };
        catalogue::random_program(rng, inject)
    } else {
        catalogue::instantiate(*rng.pick(&templates), rng)
    };
    let mut argv = place_program(rng, &mut world, &program, true);
    let mut unreadable = Vec::new();
    let mut expected_codes: Vec<String> = program.codes.iter().map(|c| c.to_string()).collect();
    if io_error {
        // a file with a syntax error makes parsing visible: it must NOT be diagnosed when an input is unreadable
        world.entries.push(Entry { path: "zz_syntax.slice".into(), kind: EntryKind::File { content: "module Zz\nstruct { oops }\n".into(), hex: None }, mode: None });
        argv.insert(0, "zz_syntax.slice".into());
        match rng.below(10) {
            6 => {
                // a dangling link named as a source
                world.entries.push(Entry { path: "gone.slice".into(), kind: EntryKind::Symlink { target: "nowhere.slice".into() }, mode: None });
                argv.insert(rng.usize_below(2), "gone.slice".into());
                unreadable.push("gone.slice".to_owned());
            }
            7 => {
                // a reference path that is missing or a dangling link
                let name = if rng.chance(1, 2) {
                    world.entries.push(Entry { path: "gone-refs".into(), kind: EntryKind::Symlink { target: "nowhere".into() }, mode: None });
                    "gone-refs"
                } else {
                    "no-such-refs"
                };
                argv.push("-R".into());
                argv.push(name.into());
                unreadable.push(name.to_owned());
            }
            8 => {
                // a reference directory that cannot be listed
                world.entries.push(Entry { path: "sealed".into(), kind: EntryKind::Dir, mode: Some(0o000) });
                argv.push("-R".into());
                argv.push("sealed".into());
                unreadable.push("sealed".to_owned());
            }
            9 => {
                // an unreadable file found inside a reference directory
                world.entries.push(Entry { path: "refs".into(), kind: EntryKind::Dir, mode: None });
                world.entries.push(Entry { path: "refs/ok.slice".into(), kind: EntryKind::File { content: "module RefsOk\nstruct R {}\n".into(), hex: None }, mode: None });
                world.entries.push(Entry { path: "refs/locked.slice".into(), kind: EntryKind::File { content: "module RefsLocked\nstruct L {}\n".into(), hex: None }, mode: Some(0o000) });
                argv.push("-R".into());
                argv.push("refs".into());
                unreadable.push("refs/locked.slice".to_owned());
            }
            0 => {
                world.entries.push(Entry { path: "locked.slice".into(), kind: EntryKind::File { content: "module Locked\nstruct L {}\n".into(), hex: None }, mode: Some(0o000) });
                argv.insert(rng.usize_below(2), "locked.slice".into());
                unreadable.push("locked.slice".to_owned());
            }
            1 => {
                argv.insert(rng.usize_below(2), "does-not-exist.slice".into());
                unreadable.push("does-not-exist.slice".to_owned());
            }
            2 => {
                world.entries.push(Entry { path: "notes.txt".into(), kind: EntryKind::File { content: "module Notes\nstruct N {}\n".into(), hex: None }, mode: None });
                argv.insert(rng.usize_below(2), "notes.txt".into());
                unreadable.push("notes.txt".to_owned());
            }
            3 => {
                world.entries.push(Entry { path: "adirectory".into(), kind: EntryKind::Dir, mode: None });
                world.entries.push(Entry { path: "adirectory/in.slice".into(), kind: EntryKind::File { content: "module In\nstruct I {}\n".into(), hex: None }, mode: None });
                argv.insert(rng.usize_below(2), "adirectory".into());
                unreadable.push("adirectory".to_owned());
            }
            4 => {
                // the read of one perfectly good file fails with EIO (libc seam)
                world.entries.push(Entry { path: "flaky.slice".into(), kind: EntryKind::File { content: "module Flaky\nstruct F {}\n".into(), hex: None }, mode: None });
                argv.insert(rng.usize_below(2), "flaky.slice".into());
                unreadable.push("flaky.slice".to_owned());
                let op = if rng.chance(1, 2) { FsOp::OpenRead } else { FsOp::Read };
                sim.fs_faults.push(FsFault { op, path: "flaky.slice".into(), nth: 1, action: FsAction::Errno { errno: *rng.pick(&[libc::EIO, libc::EACCES, libc::EMFILE, libc::ENOMEM]) } });
            }
            _ => {
                // not UTF-8
                world.entries.push(Entry { path: "binary.slice".into(), kind: EntryKind::File { content: String::new(), hex: Some("6d6f64756c652042ff0a".into()) }, mode: None });
                argv.insert(rng.usize_below(2), "binary.slice".into());
                unreadable.push("binary.slice".to_owned());
            }
        }
        expected_codes = vec!["E001".into()];
    }
    let output_dir = match rng.below(6) {
        0..=2 => None,
        // an output directory that does not exist (yet): writing into it fails, and a run that must not generate
        // must not create it either
        3 => Some(if rng.chance(1, 2) { "fresh".to_owned() } else { "fresh/nested/out".to_owned() }),
        _ => {
            world.entries.push(Entry { path: "out".into(), kind: EntryKind::Dir, mode: None });
            Some("out".to_owned())
        }
    };
    let n_gens = rng.usize_below(4);
    let mut metas = Vec::new();
    let mut paths: Vec<&str> = GEN_PATHS.to_vec();
    rng.shuffle(&mut paths);
    let hint = request_size_hint(&program);
    for i in 0..n_gens {
        let path = paths[i].to_owned();
        let args = random_args(rng);
        let reply = reply_from_pool(rng, 2, false);
        let b: Behaviour = if rng.chance(3, 4) { gens::ok(rng, &reply, hint < 3000) } else { gens::failing(rng, &reply, hint, hint < 3000) };
        let mut g = b.gen.clone();
        gens::normalise(&mut g, hint);
        sim.generators.entry(path.clone()).or_default().push(g);
        argv.push("-G".into());
        argv.push(generator_spec(&path, &args));
        metas.push(GenMeta { path, args, kind: b.kind.to_owned() });
    }
    if let Some(d) = &output_dir {
        argv.push("-O".into());
        argv.push(d.clone());
    }
    let dry_run = rng.chance(1, 4);
    if dry_run {
        argv.push("--dry-run".into());
    }
    let mut allowed: Vec<&str> = Vec::new();
    if rng.chance(1, 2) {
        for _ in 0..1 + rng.usize_below(2) {
            let l = *rng.pick(LINTS);
            allowed.push(l);
            argv.push(if rng.chance(1, 2) { "-A".into() } else { "--allow".into() });
            // the option is case-insensitive
            argv.push(if rng.chance(1, 4) { l.to_lowercase() } else { l.to_owned() });
        }
    }
    let json = rng.chance(1, 4);
    if json {
        argv.push("--diagnostic-format".into());
        argv.push("json".into());
    }
    if rng.chance(1, 4) {
        argv.push("--disable-color".into());
    }
    if rng.chance(1, 6) {
        argv.push("-D".into());
        argv.push("SOMESYMBOL".into());
    }
    let mut broken_by_symbol = false;
    if program.template == "clean-unless-defined" && !io_error && rng.chance(1, 2) {
        argv.push("-D".into());
        argv.push("BREAKIT".into());
        broken_by_symbol = true;
        expected_codes = vec!["E033".into()];
    }
    let class = if io_error {
        "io-error"
    } else if broken_by_symbol {
        "error"
    } else {
        match program.class {
            Class::Clean => "clean",
            Class::WarnOnly(_) => "warn",
            Class::Error => "error",
        }
    };
    let expected_warnings = match program.class {
        Class::Clean => Some(0),
        Class::WarnOnly(_) if !io_error => Some(program.lints.iter().filter(|l| !allowed.contains(&"All") && !allowed.contains(l)).count()),
        _ => None,
    };
    let meta = Meta {
        property: "C07".into(),
        generators: metas,
        output_dir,
        json,
        dry_run,
        class: class.into(),
        template: program.template.into(),
        expected_warnings,
        expected_codes,
        unreadable,
        fault_free: false,
    };
    Scenario { world, argv, sim, note: format!("C07 {} class={} dry_run={} allow={:?}", program.template, class, dry_run, allowed), meta: serde_json::to_value(&meta).unwrap() }
}

/// Errors of the generation phase are recognised by WHAT they are about, not by their wording: they name a listed
/// generator or a file that some generator's reply asked for (compile-phase errors name input files, identifiers,
/// types - never these).
pub fn is_generator_phase(d: &Diag, generator_paths: &[String], reply_paths: &[String]) -> bool {
    d.error && d.location.is_empty() && (generator_paths.iter().any(|g| d.message.contains(g.as_str())) || reply_paths.iter().any(|p| d.message.contains(&format!("'{p}'"))))
}

/// Everything the generators of this run asked to be written (decodable prefixes included), as spelled in replies.
pub fn reply_paths_of(trace: &[Event]) -> Vec<String> {
    let mut out = Vec::new();
    for h in generator_histories(trace) {
        for f in lenient_files(&h.stdout) {
            out.push(String::from_utf8_lossy(&f.path).into_owned());
        }
    }
    out.sort();
    out.dedup();
    out
}

pub fn judge_c07(s: &Scenario, r: &RunResult) -> Judged {
    let mut j = judge(s, r);
    if r.crashed().is_some() || r.usage_error() {
        return j;
    }
    let meta = Meta::of(s);
    let diags = parse_diagnostics(&r.stderr, meta.json);
    let errors: Vec<&Diag> = diags.iter().filter(|d| d.error).collect();
    let warnings: Vec<&Diag> = diags.iter().filter(|d| !d.error).collect();
    let gen_paths: Vec<String> = meta.generators.iter().map(|g| g.path.clone()).collect();
    let reply_paths = reply_paths_of(&r.trace);
    let compile_errors: Vec<&&Diag> = errors.iter().filter(|d| !is_generator_phase(d, &gen_paths, &reply_paths)).collect();
    let spawns = r.trace.iter().filter(|e| matches!(e.kind, Ev::Spawn { .. })).count();
    let write_opens = r
        .trace
        .iter()
        .filter(|e| matches!(&e.kind, Ev::Fs { op, flags, .. } if op == "open" && (flags.contains('w') || flags.contains('c'))))
        .count();
    let vio = &mut j.violations;
    if spawns > 0 && !compile_errors.is_empty() {
        vio.push(v("generation-despite-compile-errors", format!("{spawns} generator(s) were started although the compiler reported: {:?}", compile_errors.iter().map(|d| &d.message).collect::<Vec<_>>())));
    }
    if spawns > 0 && meta.dry_run {
        vio.push(v("generation-despite-dry-run", format!("{spawns} generator(s) were started under --dry-run")));
    }
    if write_opens > 0 && (meta.dry_run || !compile_errors.is_empty()) {
        vio.push(v("files-written-without-generation", format!("{write_opens} file(s) were opened for writing")));
    }
    if meta.dry_run || !compile_errors.is_empty() {
        // nothing at all may appear in the world on such a run - not even a directory
        let appeared: Vec<&String> = r.after.keys().filter(|p| !r.before.contains_key(*p)).collect();
        let made: Vec<String> = r.trace.iter().filter_map(|e| match &e.kind {
            Ev::Fs { op, path, result, .. } if (op == "mkdir" || op == "rename" || op == "symlink" || op == "link") && *result >= 0 => Some(format!("{op} {path}")),
            _ => None,
        }).collect();
        if !appeared.is_empty() || !made.is_empty() {
            vio.push(v("file-system-touched-without-generation", format!("appeared: {appeared:?}; operations: {made:?}")));
        }
    }
    match meta.class.as_str() {
        "clean" | "warn" => {
            if !compile_errors.is_empty() {
                vio.push(v("error-free-program-rejected", format!("template '{}' carries no error (only warnings at most) but the compiler reported: {:?}", meta.template, compile_errors.iter().map(|d| &d.message).collect::<Vec<_>>())));
            }
            // (How many warnings survive an -A list is C13's business, not C07's: it is not judged here. Observed
            // while building this check: `-A brokendoclink` is accepted by the command line but silences nothing.)
        }
        "error" => {
            if compile_errors.is_empty() {
                vio.push(v("erroneous-program-not-diagnosed", format!("template '{}' must be rejected (codes {:?}) but no compile error was emitted; exit {:?}, spawns {spawns}", meta.template, meta.expected_codes, r.exit)));
            }
            if spawns > 0 && compile_errors.is_empty() {
                vio.push(v("generation-for-erroneous-program", format!("template '{}' is ill-formed, yet {spawns} generator(s) were started", meta.template)));
            }
            // (Which codes are reported for an ill-formed program is C04's business; C07 only needs "at least one error".)
        }
        "io-error" => {
            for u in &meta.unreadable {
                if !errors.iter().any(|d| d.code == "E001" && d.message.contains(u.as_str())) {
                    vio.push(v("unreadable-input-not-reported", format!("'{u}' cannot be read but no E001 names it; errors: {:?}", errors.iter().map(|d| &d.message).collect::<Vec<_>>())));
                }
            }
            if errors.iter().any(|d| d.code != "E001") || !warnings.iter().all(|d| d.code == "DuplicateFile") {
                vio.push(v("parsed-despite-io-error", format!("an input could not be read, yet later phases ran: {:?}", diags.iter().map(|d| format!("{}: {}", d.code, d.message)).collect::<Vec<_>>())));
            }
            if spawns > 0 {
                vio.push(v("generation-despite-io-error", format!("{spawns} generator(s) were started")));
            }
        }
        _ => {}
    }
    if !meta.json {
        // the totals on stdout agree with what was shown
        let se = summary_error_count(&r.stdout).unwrap_or(0);
        let sw = summary_warning_count(&r.stdout).unwrap_or(0);
        if se != errors.len() {
            vio.push(v("error-total-differs", format!("summary says {se} error(s), {} were shown", errors.len())));
        }
        if sw != warnings.len() {
            vio.push(v("warning-total-differs", format!("summary says {sw} warning(s), {} were shown", warnings.len())));
        }
    }
    j
}

// ------------------------------------------------------------------------------------------------------------------
// Systematic part of C18: a valid reply truncated at EVERY byte
// ------------------------------------------------------------------------------------------------------------------

/// The fixed replies of the sweep (independent of the seed, so that the sweep is the same finite set on every run).
pub fn sweep_reply(no: usize) -> Reply {
    let mut rng = Rng::new(0x5EED_0000 + no as u64);
    let mut files = Vec::new();
    for i in 0..1 + no % 3 {
        let name = POOL[(no + i * 2) % POOL.len()];
        files.push(RFile { path: name.as_bytes().to_vec(), contents: content_for(name, (no % 2) as u8, false) });
    }
    let mut reply = Reply { files, diagnostics: vec![] };
    if no % 2 == 1 {
        reply.diagnostics.push(refcodec::schema::RDiag { level: (no % 2) as u8, message: format!("note {}", rng.below(100)).into_bytes(), source: if no % 4 == 1 { Some(b"cfg".to_vec()) } else { None } });
    }
    reply
}

pub fn sweep_len(no: usize) -> usize {
    refcodec::schema::encode_reply(&sweep_reply(no)).len()
}

/// Generator 1 sends reply `no` cut after `cut` bytes; generator 2 is well behaved and must still be honoured.
pub fn truncation_case(no: usize, cut: usize, rng: &mut Rng) -> Scenario {
    let bytes = refcodec::schema::encode_reply(&sweep_reply(no));
    let cut = cut.min(bytes.len().saturating_sub(1));
    let mut world = World::default();
    let program = catalogue::instantiate("clean-single", &mut Rng::new(no as u64));
    let mut argv = place_program(&mut Rng::new(1), &mut world, &program, false);
    world.entries.push(Entry { path: "out".into(), kind: EntryKind::Dir, mode: None });
    // pre-existing files: one identical to what the good generator writes, one that the truncated reply mentions
    world.entries.push(Entry { path: "out/same.txt".into(), kind: EntryKind::File { content: String::from_utf8(content_for("same.txt", 0, false)).unwrap(), hex: None }, mode: None });
    let mut sim = base_sim(rng);
    sim.fs_faults.clear();
    let bad = Generator {
        script: vec![ScriptOp::ReadRequest, gens::w(1, &bytes[..cut]), ScriptOp::Exit { code: 0 }],
        label: format!("sweep: reply {no} truncated at {cut}/{}", bytes.len()),
        ..Default::default()
    };
    let good_reply = Reply { files: vec![RFile { path: b"same.txt".to_vec(), contents: content_for("same.txt", 0, false) }, RFile { path: b"c.rs".to_vec(), contents: content_for("c.rs", 1, false) }], diagnostics: vec![] };
    let good = Generator { script: vec![ScriptOp::ReadToEof, gens::w(1, &refcodec::schema::encode_reply(&good_reply)), ScriptOp::Exit { code: 0 }], label: "ok/2files".into(), ..Default::default() };
    let order_bad_first = cut % 2 == 0;
    let names = ["gen-alpha", "tools/beta.exe"];
    let mut metas = Vec::new();
    let hint = request_size_hint(&program);
    for (i, name) in names.iter().enumerate() {
        let is_bad = (i == 0) == order_bad_first;
        let mut g = if is_bad { bad.clone() } else { good.clone() };
        // seeded pipe capacities, never so small that the request alone takes thousands of transfers
        g.stdin_cap = *rng.pick(&[16usize, 64, 512, 4096, 65536]);
        g.stdout_cap = *rng.pick(&[1usize, 7, 64, 4096, 65536]);
        g.stderr_cap = 4096;
        gens::normalise(&mut g, hint);
        sim.generators.insert((*name).to_owned(), vec![g]);
        argv.push("-G".into());
        argv.push((*name).to_owned());
        metas.push(GenMeta { path: (*name).to_owned(), args: vec![], kind: if is_bad { "truncated".into() } else { "ok".into() } });
    }
    argv.push("-O".into());
    argv.push("out".into());
    let meta = Meta { property: "C18".into(), generators: metas, output_dir: Some("out".into()), class: "clean".into(), template: "clean-single".into(), expected_warnings: Some(0), ..Default::default() };
    Scenario { world, argv, sim, note: format!("C18 sweep: reply {no} truncated at byte {cut}"), meta: serde_json::to_value(&meta).unwrap() }
}
