//! C17 — each input file is compiled exactly once: sources first, in the order given.
//!
//! Seeded directory worlds (links, aliases, permissions, non-UTF-8 content, libc faults) and argument lists that
//! alias the same file in many spellings, judged against a reference model that works on the world *description*
//! (it never asks the kernel). Files are identified by a unique module name each, so identity is visible in the
//! request whatever the spelling of the path.

use crate::hostcase::Violation;
use crate::simcheck::{observable_digest, trace_facts, Case, Outcome, Property};
use crate::simrun::*;
use refcodec::schema::parse_request;
use refcodec::util::Rng;
use serde::{Deserialize, Serialize};
use serde_json::{json, Value};
use simproto::*;
use std::collections::{BTreeMap, BTreeSet};

fn v(class: impl Into<String>, detail: impl Into<String>) -> Violation {
    Violation { class: class.into(), detail: detail.into() }
}

// ------------------------------------------------------------------------------------------------------------------
// A small model of the file system: path resolution with links and owner permission bits
// ------------------------------------------------------------------------------------------------------------------

#[derive(Clone, Debug, PartialEq, Eq)]
pub enum MKind {
    Dir,
    File,
    Link(String),
}

#[derive(Clone, Debug)]
pub struct MNode {
    pub kind: MKind,
    pub mode: u32,
    /// for files: does the content decode as UTF-8
    pub utf8: bool,
    /// the module the file declares (its identity), if it is one of ours
    pub module: Option<String>,
}

#[derive(Clone, Copy, Debug, PartialEq, Eq)]
pub enum MErr {
    NotFound,
    NotDir,
    Access,
    Loop,
}

pub struct MFs {
    /// canonical path ("" = root) -> node
    pub nodes: BTreeMap<String, MNode>,
}

fn join(dir: &str, name: &str) -> String {
    if dir.is_empty() {
        name.to_owned()
    } else {
        format!("{dir}/{name}")
    }
}

fn parent(p: &str) -> String {
    match p.rfind('/') {
        Some(i) => p[..i].to_owned(),
        None => String::new(),
    }
}

impl MFs {
    pub fn from_world(world: &World) -> MFs {
        let mut nodes = BTreeMap::new();
        nodes.insert(String::new(), MNode { kind: MKind::Dir, mode: 0o755, utf8: true, module: None });
        for e in &world.entries {
            // implicit parents
            let mut p = parent(&e.path);
            let mut missing = Vec::new();
            while !p.is_empty() && !nodes.contains_key(&p) {
                missing.push(p.clone());
                p = parent(&p);
            }
            for m in missing {
                nodes.insert(m, MNode { kind: MKind::Dir, mode: 0o755, utf8: true, module: None });
            }
            let node = match &e.kind {
                EntryKind::Dir => MNode { kind: MKind::Dir, mode: e.mode.unwrap_or(0o755), utf8: true, module: None },
                EntryKind::Symlink { target } => MNode { kind: MKind::Link(target.clone()), mode: 0o777, utf8: true, module: None },
                EntryKind::File { content, hex } => {
                    let module = content.lines().next().and_then(|l| l.strip_prefix("module ")).map(|m| m.trim().to_owned());
                    MNode { kind: MKind::File, mode: e.mode.unwrap_or(0o644), utf8: hex.is_none(), module }
                }
            };
            nodes.insert(e.path.clone(), node);
        }
        MFs { nodes }
    }

    fn children(&self, dir: &str) -> Vec<String> {
        let prefix = if dir.is_empty() { String::new() } else { format!("{dir}/") };
        self.nodes
            .keys()
            .filter(|k| !k.is_empty() && k.starts_with(&prefix) && !k[prefix.len()..].contains('/'))
            .map(|k| k[prefix.len()..].to_owned())
            .collect()
    }

    /// Resolves `path` (as the compiler would pass it to the kernel) from the canonical directory `cwd`.
    /// Returns the canonical path of what it denotes.
    pub fn resolve(&self, cwd: &str, path: &str, follow_last: bool) -> Result<String, MErr> {
        self.resolve_with(cwd, path, follow_last, true)
    }

    /// Where the entry named by `path` physically lives, whatever the permission bits say (used to recognise the
    /// same entry under two spellings when matching diagnostics; never to predict what the compiler can access).
    pub fn entry_identity(&self, cwd: &str, path: &str) -> Option<String> {
        self.resolve_with(cwd, path.trim_end_matches('/'), false, false).ok()
    }

    /// The file or directory `path` finally denotes (links followed), whatever the permission bits say.
    pub fn target_identity(&self, cwd: &str, path: &str) -> Option<String> {
        self.resolve_with(cwd, path.trim_end_matches('/'), true, false).ok()
    }

    fn resolve_with(&self, cwd: &str, path: &str, follow_last: bool, check_permissions: bool) -> Result<String, MErr> {
        let mut cur: String;
        let mut rest: Vec<String>;
        if let Some(abs) = path.strip_prefix("@ROOT@") {
            cur = String::new();
            rest = abs.split('/').map(|s| s.to_owned()).collect();
        } else if path.starts_with('/') {
            return Err(MErr::NotFound); // outside the world
        } else {
            cur = cwd.to_owned();
            rest = path.split('/').map(|s| s.to_owned()).collect();
        }
        rest.reverse(); // pop from the end
        let mut links = 0;
        if path.is_empty() {
            return Err(MErr::NotFound);
        }
        while let Some(comp) = rest.pop() {
            if comp.is_empty() || comp == "." {
                // "a/." needs `a` to be a directory
                match self.nodes.get(&cur).map(|n| &n.kind) {
                    Some(MKind::Dir) => continue,
                    Some(_) => return Err(MErr::NotDir),
                    None => return Err(MErr::NotFound),
                }
            }
            let node = self.nodes.get(&cur).ok_or(MErr::NotFound)?;
            if node.kind != MKind::Dir {
                return Err(MErr::NotDir);
            }
            // looking anything up in a directory needs search permission on it
            if check_permissions && node.mode & 0o100 == 0 {
                return Err(MErr::Access);
            }
            if comp == ".." {
                cur = parent(&cur);
                continue;
            }
            let child = join(&cur, &comp);
            let cnode = self.nodes.get(&child).ok_or(MErr::NotFound)?;
            match &cnode.kind {
                MKind::Link(target) if !rest.is_empty() || follow_last => {
                    links += 1;
                    if links > 40 {
                        return Err(MErr::Loop);
                    }
                    // relative targets only in our worlds
                    for c in target.split('/').rev() {
                        rest.push(c.to_owned());
                    }
                    // cur stays: the target is relative to the directory holding the link
                }
                _ => cur = child,
            }
        }
        Ok(cur)
    }

    pub fn stat(&self, cwd: &str, path: &str) -> Result<(String, &MNode), MErr> {
        let c = self.resolve(cwd, path, true)?;
        let n = self.nodes.get(&c).ok_or(MErr::NotFound)?;
        Ok((c, n))
    }
}

// ------------------------------------------------------------------------------------------------------------------
// The reference model of "which files are compiled"
// ------------------------------------------------------------------------------------------------------------------

#[derive(Clone, Debug, Default)]
pub struct Expected {
    /// spelled paths (arguments, or entries below a reference directory) that must be reported with an E001
    pub io_errors: Vec<String>,
    /// the world has a directory cycle through links or a looping link below a reference directory: the statement
    /// is silent; both "reported as an error" and "compiled with duplicates" are accepted
    pub loops: bool,
    /// a link below a reference directory leads back to a directory the walk is inside of (nothing is due for it)
    pub dir_cycles: bool,
    /// identities (module names) in the order they must appear
    pub sources: Vec<String>,
    /// identities of explicitly listed reference files, in order (after de-duplication)
    pub refs_explicit: Vec<String>,
    pub refs: BTreeSet<String>,
    /// identity -> number of DuplicateFile warnings
    pub duplicates: BTreeMap<String, usize>,
    /// entries about which the statement is silent: reporting them with an E001 is as acceptable as skipping them
    pub optional_errors: Vec<String>,
}

struct Found {
    spelled: String,
    canonical: String,
    explicit: bool,
}

fn has_slice_ext(path: &str) -> bool {
    let name = path.rsplit('/').next().unwrap_or("");
    match name.rfind('.') {
        Some(0) | None => false,
        Some(i) => &name[i + 1..] == "slice",
    }
}

fn spelled_join(dir: &str, name: &str) -> String {
    // PathBuf::push semantics for relative components
    if dir.ends_with('/') {
        format!("{dir}{name}")
    } else {
        format!("{dir}/{name}")
    }
}

fn walk(fs: &MFs, cwd: &str, spelled: &str, stack: &mut Vec<String>, out: &mut Vec<Found>, exp: &mut Expected, faults: &mut Faults) {
    // `spelled` is known to denote a directory
    let Ok((canon, node)) = fs.stat(cwd, spelled) else { return };
    if stack.contains(&canon) {
        // a link back to a directory the walk is inside of: nothing new below it (and no error - all of it is
        // readable; the pinned tree followed such links until ELOOP: fixed)
        exp.dir_cycles = true;
        return;
    }
    if node.mode & 0o400 == 0 {
        exp.io_errors.push(spelled.to_owned());
        return;
    }
    if faults.opendir.remove(&canon) {
        exp.io_errors.push(spelled.to_owned());
        return;
    }
    if let Some(nth) = faults.readdir.get(&canon).copied() {
        // the listing is asked for one entry more than the directory holds (the end-of-directory call)
        if nth as usize <= fs.children(&canon).len() + 1 {
            faults.readdir.remove(&canon);
            exp.io_errors.push(spelled.to_owned());
            // Which entries were delivered before the failure depends on the listing order, which is not ours to
            // predict: nothing is demanded about them (the outcome is an error either way).
            return;
        }
    }
    stack.push(canon.clone());
    for name in fs.children(&canon) {
        let child = spelled_join(spelled, &name);
        match fs.stat(cwd, &child) {
            Err(MErr::NotFound) | Err(MErr::NotDir) => {} // dangling link: nothing to compile
            Err(MErr::Loop) => exp.loops = true,
            Err(MErr::Access) => {
                // The entry can be listed but not looked at. An implementation may know from the listing itself
                // (d_type) that a plain file without the extension is of no interest and skip it silently; anything
                // that may hide Slice files must be reported.
                let plain_other_file = matches!(fs.nodes.get(&join(&canon, &name)).map(|n| &n.kind), Some(MKind::File)) && !has_slice_ext(&name);
                if plain_other_file {
                    exp.optional_errors.push(child);
                } else {
                    exp.io_errors.push(child);
                }
            }
            Ok((ccanon, cnode)) => {
                if faults.stat.remove(&ccanon) {
                    // an injected stat failure on this entry: reported (or the entry is below a failing listing)
                    exp.io_errors.push(child);
                    continue;
                }
                match cnode.kind {
                    MKind::Dir => walk(fs, cwd, &child, stack, out, exp, faults),
                    MKind::File if has_slice_ext(&child) => out.push(Found { spelled: child, canonical: ccanon, explicit: false }),
                    _ => {}
                }
            }
        }
    }
    stack.pop();
}

/// Hard faults of the scenario, by canonical path. A fault fires on the FIRST matching call only, so the model
/// consumes it when it predicts that call.
/// Cost estimate of the compiler's recursive walk from `dir`: follows links like the kernel does (at most 40 per
/// path). Returns false as soon as more than 3000 directories would be visited.
fn walk_cost(fs: &MFs, dir: &str, links_on_path: usize, visited: &mut usize) -> bool {
    *visited += 1;
    if *visited > 3000 {
        return false;
    }
    for name in fs.children(dir) {
        let child = join(dir, &name);
        let Some(n) = fs.nodes.get(&child) else { continue };
        match &n.kind {
            MKind::Dir => {
                if !walk_cost(fs, &child, links_on_path, visited) {
                    return false;
                }
            }
            MKind::Link(_) => {
                if links_on_path >= 40 {
                    continue;
                }
                if let Ok(dest) = fs.resolve("", &child, true) {
                    if matches!(fs.nodes.get(&dest).map(|n| &n.kind), Some(MKind::Dir)) && !walk_cost(fs, &dest, links_on_path + 1, visited) {
                        return false;
                    }
                }
            }
            MKind::File => {}
        }
    }
    true
}

#[derive(Default, Clone, Debug)]
pub struct Faults {
    pub open_or_read: BTreeSet<String>,
    pub opendir: BTreeSet<String>,
    /// directory -> the listing fails when this many entries (+1) have been asked for
    pub readdir: BTreeMap<String, u32>,
    pub stat: BTreeSet<String>,
    pub realpath: BTreeSet<String>,
}

pub fn faults_of(sim: &Sim) -> Faults {
    let mut f = Faults::default();
    for x in &sim.fs_faults {
        if !matches!(x.action, FsAction::Errno { .. }) {
            continue;
        }
        let p = x.path.clone();
        match x.op {
            FsOp::OpenRead | FsOp::Read => {
                f.open_or_read.insert(p);
            }
            FsOp::Opendir => {
                f.opendir.insert(p);
            }
            FsOp::Readdir => {
                f.readdir.insert(p, x.nth);
            }
            // A failing stat or realpath does not make a file unreadable: an implementation may report it (always
            // accepted: see `about_fired`) or work around it (identity by device and inode, d_type from the
            // listing) - then the complete, correct file set is due, and checked.
            FsOp::Stat | FsOp::Realpath => {}
            _ => {}
        }
    }
    f
}

pub fn expected(world: &World, sources: &[String], references: &[String], faults: &Faults) -> Expected {
    let mut faults = faults.clone();
    let faults = &mut faults;
    let fs = MFs::from_world(world);
    let cwd = world.cwd.trim_end_matches('/').to_owned();
    let mut exp = Expected::default();

    let mut collect = |list: &[String], are_sources: bool, exp: &mut Expected, faults: &mut Faults| -> Vec<Found> {
        let mut found = Vec::new();
        for arg in list {
            match fs.stat(&cwd, arg) {
                Err(_) => exp.io_errors.push(arg.clone()), // does not exist (or cannot be looked at)
                Ok((canon, node)) => {
                    if faults.stat.remove(&canon) {
                        exp.io_errors.push(arg.clone());
                        continue;
                    }
                    match node.kind {
                        MKind::File => {
                            if !has_slice_ext(arg) {
                                exp.io_errors.push(arg.clone());
                            } else {
                                found.push(Found { spelled: arg.clone(), canonical: canon, explicit: true });
                            }
                        }
                        MKind::Dir => {
                            if are_sources {
                                exp.io_errors.push(arg.clone());
                            } else {
                                let mut stack = Vec::new();
                                walk(&fs, &cwd, arg, &mut stack, &mut found, exp, faults);
                            }
                        }
                        MKind::Link(_) => unreachable!("stat follows links"),
                    }
                }
            }
        }
        // canonicalisation of what was found
        found.retain(|f| {
            if faults.realpath.remove(&f.canonical) {
                exp.io_errors.push(f.spelled.clone());
                false
            } else {
                true
            }
        });
        found
    };

    let src = collect(sources, true, &mut exp, faults);
    let refs = collect(references, false, &mut exp, faults);

    let identity = |canon: &str| -> String { fs.nodes.get(canon).and_then(|n| n.module.clone()).unwrap_or_else(|| format!("<{canon}>")) };
    let mut dedupe = |found: Vec<Found>, exp: &mut Expected| -> Vec<Found> {
        let mut kept: Vec<Found> = Vec::new();
        for f in found {
            if kept.iter().any(|k| k.canonical == f.canonical) {
                *exp.duplicates.entry(identity(&f.canonical)).or_default() += 1;
            } else {
                kept.push(f);
            }
        }
        kept
    };
    let src = dedupe(src, &mut exp);
    let refs = dedupe(refs, &mut exp);
    let refs: Vec<Found> = refs.into_iter().filter(|r| !src.iter().any(|s| s.canonical == r.canonical)).collect();

    // reading
    for f in src.iter().chain(refs.iter()) {
        let n = &fs.nodes[&f.canonical];
        if n.mode & 0o400 == 0 || !n.utf8 || faults.open_or_read.remove(&f.canonical) {
            exp.io_errors.push(f.spelled.clone());
        }
    }
    // a file that declares no module (empty, comments only, everything switched off by the preprocessor) is compiled
    // like any other but holds nothing a request could carry: it is not expected in the request
    let in_request = |f: &&Found| fs.nodes[&f.canonical].module.is_some();
    exp.sources = src.iter().filter(in_request).map(|f| identity(&f.canonical)).collect();
    exp.refs_explicit = refs.iter().filter(in_request).filter(|f| f.explicit).map(|f| identity(&f.canonical)).collect();
    exp.refs = refs.iter().filter(in_request).map(|f| identity(&f.canonical)).collect();
    exp
}

// ------------------------------------------------------------------------------------------------------------------
// World and argument generation
// ------------------------------------------------------------------------------------------------------------------

#[derive(Clone, Debug, Serialize, Deserialize, Default)]
pub struct Meta17 {
    pub sources: Vec<String>,
    pub references: Vec<String>,
    /// an absolute spelling is used (@ROOT@): outputs contain the per-run root, so digests are not compared
    #[serde(default)]
    pub absolute: bool,
    #[serde(default)]
    pub canary: Option<String>,
    /// `-A <lint>` on the command line (DuplicateFile or All): silences the warnings, must not change which files
    /// are compiled
    #[serde(default)]
    pub allow: Option<String>,
}

const CAPTURE: &str = "capture-gen";

fn slice_text(k: usize) -> String {
    format!("module U{k}\nstruct S{k} {{ a: int32 }}\n")
}


/// All spellings of the canonical path `target` as seen from `cwd`, through plain relative paths and through every
/// directory link that leads to one of its ancestors.
fn spellings(fs: &MFs, cwd: &str, target: &str, rng: &mut Rng) -> Vec<String> {
    let rel = |from: &str, to: &str| -> String {
        let f: Vec<&str> = if from.is_empty() { vec![] } else { from.split('/').collect() };
        let t: Vec<&str> = if to.is_empty() { vec![] } else { to.split('/').collect() };
        let mut i = 0;
        while i < f.len() && i < t.len() && f[i] == t[i] {
            i += 1;
        }
        let mut parts: Vec<String> = std::iter::repeat("..".to_owned()).take(f.len() - i).collect();
        parts.extend(t[i..].iter().map(|s| s.to_string()));
        if parts.is_empty() {
            ".".to_owned()
        } else {
            parts.join("/")
        }
    };
    let mut out = vec![rel(cwd, target)];
    // through links: any link node whose resolution is an ancestor directory of target (or target itself)
    for (lp, n) in &fs.nodes {
        if let MKind::Link(_) = n.kind {
            if let Ok(dest) = fs.resolve("", lp, true) {
                if dest == target {
                    out.push(rel(cwd, lp));
                } else if !dest.is_empty() && target.starts_with(&format!("{dest}/")) {
                    let tail = &target[dest.len() + 1..];
                    out.push(format!("{}/{}", rel(cwd, lp), tail));
                }
            }
        }
    }
    // `linkdir/../name`: ".." after a link to a directory leads to the parent of the link's TARGET (the kernel
    // resolves it physically), which is where `target` lives if that directory is a sibling of it
    let tparent = parent(target);
    let tname = target.rsplit('/').next().unwrap_or("").to_owned();
    for (lp, n) in &fs.nodes {
        if let MKind::Link(_) = n.kind {
            if let Ok(dest) = fs.resolve("", lp, true) {
                // (only through a SEARCHABLE directory: looking up ".." in a directory without search permission
                // fails in the kernel but not in glibc's realpath, so implementations that canonicalise first
                // legitimately differ there)
                if !dest.is_empty() && dest != target && parent(&dest) == tparent && matches!(fs.nodes.get(&dest), Some(n) if n.kind == MKind::Dir && n.mode & 0o100 != 0) {
                    out.push(format!("{}/../{}", rel(cwd, lp), tname));
                }
            }
        }
    }
    // decorations
    let base = rng.pick(&out).clone();
    let decorated = match rng.below(7) {
        0 => format!("./{base}"),
        1 => base.replacen('/', "//", 1),
        2 => base.replacen('/', "/./", 1),
        3 => {
            // dir/../dir/rest — only through a real directory (".." is physical)
            match base.find('/') {
                Some(i) if !base.starts_with("..") && matches!(fs.nodes.get(&join(cwd, &base[..i])), Some(n) if n.kind == MKind::Dir && n.mode & 0o100 != 0) => format!("{}/../{}", &base[..i], base),
                _ => base.clone(),
            }
        }
        4 => format!("@ROOT@/{target}"),
        _ => base.clone(),
    };
    out.push(decorated);
    out
}

pub fn generate(rng: &mut Rng) -> Scenario {
    let mut entries: Vec<Entry> = Vec::new();
    let mut k = 0usize;
    let mut dirs: Vec<String> = vec![String::new()];
    let file = |path: String, content: String| Entry { path, kind: EntryKind::File { content, hex: None }, mode: None };
    // directories
    let n_dirs = 1 + rng.usize_below(6);
    for i in 0..n_dirs {
        let parent = rng.pick(&dirs).clone();
        if parent.matches('/').count() >= 3 {
            continue;
        }
        let name = match rng.below(10) {
            0 => format!("d{i}.slice"), // a directory with the extension
            1 => format!("sp ace{i}"),
            2 => format!(".hidden{i}"), // nothing special about dot directories
            3 => format!("dä{i}"),
            _ => format!("d{i}"),
        };
        let p = join(&parent, &name);
        entries.push(Entry { path: p.clone(), kind: EntryKind::Dir, mode: None });
        dirs.push(p);
    }
    // slice files and other files
    // one world in eight is wide: lists of more than twenty files behave differently in sorting and hashing code
    let wide = rng.chance(1, 8);
    let n_files = if wide { 18 + rng.usize_below(30) } else { 2 + rng.usize_below(9) };
    let mut slice_files: Vec<String> = Vec::new();
    for _ in 0..n_files {
        let dir = rng.pick(&dirs).clone();
        match rng.below(10) {
            0 => entries.push(file(join(&dir, &format!("notes{k}.txt")), "not slice\n".into())),
            1 => entries.push(file(join(&dir, &format!("old{k}.slice.bak")), slice_text(1000 + k))),
            2 => entries.push(file(join(&dir, &format!("noext{k}")), slice_text(2000 + k))),
            // near misses of the extension: none of these is a Slice file
            3 if rng.chance(1, 2) => {
                let name = match rng.below(4) {
                    0 => format!("UP{k}.SLICE"),
                    1 => format!("two{k}.slice2"),
                    2 => format!("x{k}.slice.txt"),
                    _ => format!("sl{k}.slic"),
                };
                entries.push(file(join(&dir, &name), slice_text(3000 + k)))
            }
            4 if rng.chance(1, 3) => {
                let p = join(&dir, &format!("blank{k}.slice"));
                entries.push(file(p.clone(), crate::catalogue::blank_text(rng)));
                slice_files.push(p);
            }
            _ => {
                let p = join(&dir, &format!("f{k}.slice"));
                entries.push(file(p.clone(), slice_text(k)));
                slice_files.push(p);
            }
        }
        k += 1;
    }
    if slice_files.is_empty() {
        entries.push(file("only.slice".into(), slice_text(k)));
        slice_files.push("only.slice".into());
        k += 1;
    }
    // names that differ in letter case only are different files (and directories) on this file system
    if rng.chance(1, 8) {
        let twin_of = rng.pick(&slice_files).clone();
        let (dir, name) = match twin_of.rfind('/') {
            Some(i) => (twin_of[..i].to_owned(), twin_of[i + 1..].to_owned()),
            None => (String::new(), twin_of.clone()),
        };
        let twin = join(&dir, &format!("{}{}", name[..1].to_uppercase(), &name[1..]));
        if twin != twin_of && !entries.iter().any(|e| e.path == twin) {
            entries.push(file(twin.clone(), slice_text(k)));
            slice_files.push(twin);
            k += 1;
        }
    }
    if rng.chance(1, 12) && dirs.len() > 1 {
        let d = dirs[1 + rng.usize_below(dirs.len() - 1)].clone();
        let (parent_dir, name) = match d.rfind('/') {
            Some(i) => (d[..i].to_owned(), d[i + 1..].to_owned()),
            None => (String::new(), d.clone()),
        };
        let upper = name.to_uppercase();
        let twin_dir = join(&parent_dir, &upper);
        if upper != name && !entries.iter().any(|e| e.path == twin_dir) {
            entries.push(Entry { path: twin_dir.clone(), kind: EntryKind::Dir, mode: None });
            let p = join(&twin_dir, &format!("f{k}.slice"));
            entries.push(file(p.clone(), slice_text(k)));
            slice_files.push(p);
            dirs.push(twin_dir);
            k += 1;
        }
    }
    // links
    let n_links = if wide { rng.usize_below(14) } else { rng.usize_below(5) };
    for i in 0..n_links {
        let dir = rng.pick(&dirs).clone();
        let depth = if dir.is_empty() { 0 } else { dir.matches('/').count() + 1 };
        let up = "../".repeat(depth);
        match rng.below(6) {
            0 | 1 => {
                // link to a slice file (same extension, so the statement is unambiguous)
                let t = rng.pick(&slice_files).clone();
                entries.push(Entry { path: join(&dir, &format!("ln{i}.slice")), kind: EntryKind::Symlink { target: format!("{up}{t}") }, mode: None });
            }
            2 | 3 => {
                // link to a directory (never to an ancestor unless we want a cycle)
                let t = rng.pick(&dirs).clone();
                if !t.is_empty() && !dir.starts_with(&t) {
                    entries.push(Entry { path: join(&dir, &format!("ld{i}")), kind: EntryKind::Symlink { target: format!("{up}{t}") }, mode: None });
                } else if !dir.is_empty() && rng.chance(1, 3) {
                    // a cycle: link to the parent directory (never at the root: ".." would leave the world)
                    entries.push(Entry { path: join(&dir, &format!("cyc{i}")), kind: EntryKind::Symlink { target: "..".into() }, mode: None });
                }
            }
            4 if rng.chance(1, 2) => {
                // a link to a link to a file
                if let Some(prev) = entries.iter().find(|e| e.path.rsplit('/').next().map(|n| n.starts_with("ln") && n.ends_with(".slice")).unwrap_or(false)).map(|e| e.path.clone()) {
                    entries.push(Entry { path: join(&dir, &format!("ll{i}.slice")), kind: EntryKind::Symlink { target: format!("{up}{prev}") }, mode: None });
                }
            }
            4 => entries.push(Entry { path: join(&dir, &format!("dangling{i}.slice")), kind: EntryKind::Symlink { target: "nowhere.slice".into() }, mode: None }),
            _ => entries.push(Entry { path: join(&dir, &format!("loop{i}.slice")), kind: EntryKind::Symlink { target: format!("loop{i}.slice") }, mode: None }),
        }
    }
    // permission trouble and bad content (each with low probability so that most worlds compile)
    if rng.chance(1, 5) {
        let victim = rng.pick(&slice_files).clone();
        if let Some(e) = entries.iter_mut().find(|e| e.path == victim) {
            if rng.chance(1, 2) {
                e.mode = Some(0o000);
            } else {
                e.kind = EntryKind::File { content: String::new(), hex: Some("6d6f64756c6520420aff".into()) };
            }
        }
    }
    if rng.chance(1, 5) && dirs.len() > 1 {
        let d = dirs[1 + rng.usize_below(dirs.len() - 1)].clone();
        if let Some(e) = entries.iter_mut().find(|e| e.path == d) {
            e.mode = Some(*rng.pick(&[0o000, 0o111, 0o444, 0o311, 0o600]));
        }
    }
    // creation order: parents before children, otherwise permuted (tmpfs lists in reverse creation order)
    {
        let mut order: Vec<usize> = (0..entries.len()).collect();
        rng.shuffle(&mut order);
        let mut placed: Vec<Entry> = Vec::new();
        let mut pending: Vec<Entry> = order.into_iter().map(|i| entries[i].clone()).collect();
        while !pending.is_empty() {
            let mut progressed = false;
            let mut i = 0;
            while i < pending.len() {
                let par = parent(&pending[i].path);
                if par.is_empty() || placed.iter().any(|p| p.path == par) {
                    placed.push(pending.remove(i));
                    progressed = true;
                } else {
                    i += 1;
                }
            }
            if !progressed {
                placed.append(&mut pending);
            }
        }
        entries = placed;
    }
    let cwd = if rng.chance(1, 3) {
        // a directory the compiler can actually stand in
        dirs.iter().filter(|d| !d.is_empty() && entries.iter().all(|e| !(d.starts_with(&e.path) && e.mode.map(|m| m & 0o100 == 0).unwrap_or(false)))).cloned().next().unwrap_or_default()
    } else {
        String::new()
    };
    let mut world = World { entries, cwd: cwd.clone() };
    // A directory cycle through links makes the compiler's walk descend until the kernel's 40-link limit; two
    // cycles reachable from each other make that walk exponential. Termination time is C01's subject, not this
    // property's: keep removing directory links until a walk from the root is affordable.
    loop {
        let fs = MFs::from_world(&world);
        if walk_cost(&fs, "", 0, &mut 0) {
            break;
        }
        match world.entries.iter().rposition(|e| matches!(&e.kind, EntryKind::Symlink { .. }) && (e.path.contains("/cyc") || e.path.contains("/ld") || e.path.starts_with("ld") || e.path.starts_with("cyc"))) {
            Some(i) => {
                world.entries.remove(i);
            }
            None => break,
        }
    }
    let fs = MFs::from_world(&world);

    // arguments
    let mut sources: Vec<String> = Vec::new();
    let mut references: Vec<String> = Vec::new();
    let n_src = if wide && rng.chance(1, 2) { 12 + rng.usize_below(24) } else { 1 + rng.usize_below(3) };
    for _ in 0..n_src {
        let t = rng.pick(&slice_files).clone();
        let sp = spellings(&fs, &cwd, &t, rng);
        sources.push(rng.pick(&sp).clone());
    }
    // repeats and trouble in the source list
    if rng.chance(1, 3) {
        let again = rng.pick(&sources).clone();
        let canon = fs.resolve(&cwd, &again, true).unwrap_or_default();
        let sp = spellings(&fs, &cwd, &canon, rng);
        let at = rng.usize_below(sources.len() + 1);
        sources.insert(at, rng.pick(&sp).clone());
    }
    if rng.chance(1, 8) {
        let bad = match rng.below(5) {
            // something that exists but is neither a file nor a directory
            4 => "/dev/null".to_owned(),
            0 => "missing.slice".to_owned(),
            1 => {
                let d = rng.pick(&dirs).clone();
                if d.is_empty() {
                    ".".to_owned()
                } else {
                    let sp = spellings(&fs, &cwd, &d, rng);
                    rng.pick(&sp).clone()
                }
            }
            2 => match world.entries.iter().find(|e| e.path.ends_with(".txt") || e.path.contains("noext")) {
                Some(e) => {
                    let sp = spellings(&fs, &cwd, &e.path, rng);
                    rng.pick(&sp).clone()
                }
                None => "missing2.slice".into(),
            },
            _ => world.entries.iter().find(|e| e.path.contains("dangling") || e.path.contains("loop")).map(|e| e.path.clone()).map(|p| {
                // spelled relative to cwd without following
                let f: Vec<&str> = if cwd.is_empty() { vec![] } else { cwd.split('/').collect() };
                format!("{}{}", "../".repeat(f.len()), p)
            }).unwrap_or_else(|| "missing3.slice".into()),
        };
        let at = rng.usize_below(sources.len() + 1);
        sources.insert(at, bad);
    }
    let n_ref = rng.usize_below(4);
    for _ in 0..n_ref {
        if rng.chance(1, 2) {
            let d = rng.pick(&dirs).clone();
            let sp = if d.is_empty() {
                let f: Vec<&str> = if cwd.is_empty() { vec![] } else { cwd.split('/').collect() };
                vec![if f.is_empty() { ".".to_owned() } else { "../".repeat(f.len()).trim_end_matches('/').to_owned() }]
            } else {
                spellings(&fs, &cwd, &d, rng)
            };
            let mut s = rng.pick(&sp).clone();
            if rng.chance(1, 5) && !s.ends_with('.') {
                s.push('/');
            }
            references.push(s);
        } else {
            let t = rng.pick(&slice_files).clone();
            let sp = spellings(&fs, &cwd, &t, rng);
            references.push(rng.pick(&sp).clone());
        }
    }
    if !references.is_empty() && rng.chance(1, 4) {
        let again = rng.pick(&references).clone();
        references.push(again);
    }
    if rng.chance(1, 30) {
        let at = rng.usize_below(references.len() + 1);
        references.insert(at, "/dev/null".to_owned());
    }

    let mut sim = Sim {
        hash_seed: rng.next_u64(),
        heap_shift: rng.usize_below(1 << 16),
        sched: Sched::CompilerFirst,
        choice_seed: rng.next_u64(),
        buggify: Buggify { transparent_file_read: rng.chance(1, 3), ..Default::default() },
        ..Default::default()
    };
    // libc faults: a hard error somewhere on the way to one file or directory
    if rng.chance(1, 6) {
        let f = if rng.chance(1, 2) {
            let t = rng.pick(&slice_files).clone();
            match rng.below(4) {
                0 => FsFault { op: FsOp::OpenRead, path: t, nth: 1, action: FsAction::Errno { errno: *rng.pick(&[libc::EIO, libc::EACCES, libc::EMFILE]) } },
                1 => FsFault { op: FsOp::Read, path: t, nth: 1, action: FsAction::Errno { errno: libc::EIO } },
                2 => FsFault { op: FsOp::Realpath, path: t, nth: 1, action: FsAction::Errno { errno: *rng.pick(&[libc::EIO, libc::ENOMEM]) } },
                _ => FsFault { op: FsOp::Read, path: t, nth: 1, action: FsAction::Short { n: 3 } },
            }
        } else {
            let d = rng.pick(&dirs).clone();
            match rng.below(2) {
                0 => FsFault { op: FsOp::Opendir, path: d, nth: 1, action: FsAction::Errno { errno: *rng.pick(&[libc::EIO, libc::EMFILE, libc::EACCES]) } },
                _ => FsFault { op: FsOp::Readdir, path: d, nth: 1 + rng.below(3) as u32, action: FsAction::Errno { errno: libc::EIO } },
            }
        };
        sim.fs_faults.push(f);
    }
    sim.generators.insert(
        CAPTURE.into(),
        vec![Generator { script: vec![ScriptOp::ReadRequest, ScriptOp::Write { fd: 1, hex: "0000".into() }, ScriptOp::Exit { code: 0 }], stdin_cap: 1 << 20, stdout_cap: 65536, stderr_cap: 65536, label: "capture".into(), ..Default::default() }],
    );

    // does the model expect an I/O error? then add the canary with a syntax error so that parsing would show
    let faults = faults_of(&sim);
    let exp = expected(&world, &sources, &references, &faults);
    let mut world = world;
    let mut canary = None;
    if !exp.io_errors.is_empty() {
        let name = "zz_canary.slice".to_owned();
        world.entries.push(Entry { path: name.clone(), kind: EntryKind::File { content: "module Canary\nstruct { oops }\n".into(), hex: None }, mode: None });
        let f: Vec<&str> = if cwd.is_empty() { vec![] } else { cwd.split('/').collect() };
        let spelled = format!("{}{}", "../".repeat(f.len()), name);
        sources.push(spelled.clone());
        canary = Some(spelled);
    }

    // argv: sources and -R options in random interleaving (the relative order inside each list is what matters)
    let mut argv: Vec<String> = Vec::new();
    let (mut si, mut ri) = (0, 0);
    while si < sources.len() || ri < references.len() {
        let take_src = ri >= references.len() || (si < sources.len() && rng.chance(1, 2));
        if take_src {
            argv.push(sources[si].clone());
            si += 1;
        } else {
            argv.push("-R".into());
            argv.push(references[ri].clone());
            ri += 1;
        }
    }
    // one case in four allows the DuplicateFile lint (by name or through All): the warnings go, the de-duplication
    // must stay (drawn last, so that the worlds of a seed are what they were before this option existed)
    let allow = if rng.chance(1, 4) { Some(rng.pick(&["DuplicateFile", "All"]).to_string()) } else { None };
    if let Some(a) = &allow {
        argv.push("-A".into());
        argv.push(a.clone());
    }
    argv.push("-G".into());
    argv.push(CAPTURE.into());
    let absolute = argv.iter().any(|a| a.contains("@ROOT@"));
    let meta = Meta17 { sources, references, absolute, canary, allow };
    Scenario { world, argv, sim, note: "C17".into(), meta: serde_json::to_value(&meta).unwrap() }
}

// ------------------------------------------------------------------------------------------------------------------
// Oracle
// ------------------------------------------------------------------------------------------------------------------

/// Everything in a message that may be a path: the text between quotes of either kind, and blank-separated words
/// (trimmed of punctuation). The wording of messages is not ours to rely on; which file a message is about is.
fn path_candidates(message: &str) -> Vec<String> {
    let mut out: Vec<String> = Vec::new();
    for q in ['\'', '"', '`'] {
        let parts: Vec<&str> = message.split(q).collect();
        // odd-numbered parts are inside quotes; with an apostrophe inside a path the longest span also helps
        for (i, p) in parts.iter().enumerate() {
            if i % 2 == 1 && !p.is_empty() {
                out.push((*p).to_owned());
            }
        }
        if parts.len() > 3 {
            if let (Some(a), Some(b)) = (message.find(q), message.rfind(q)) {
                if b > a + 1 {
                    out.push(message[a + 1..b].to_owned());
                }
            }
        }
        // "'path': reason" where the reason itself contains a quote
        if let Some(a) = message.find(q) {
            if let Some(b) = message[a + 1..].find(&format!("{q}:")) {
                out.push(message[a + 1..a + 1 + b].to_owned());
            }
        }
    }
    for w in message.split_whitespace() {
        let t = w.trim_matches(|c: char| matches!(c, ':' | ',' | ';' | '.' | '(' | ')' | '\'' | '"' | '`'));
        if t.contains('/') || t.contains(".slice") {
            out.push(t.to_owned());
        }
    }
    out.sort();
    out.dedup();
    out
}

pub fn judge(s: &Scenario, r: &RunResult) -> (Vec<Violation>, Vec<&'static str>) {
    let meta: Meta17 = serde_json::from_value(s.meta.clone()).unwrap_or_default();
    let mut vio = Vec::new();
    let mut probes: Vec<&'static str> = Vec::new();
    if let Some(c) = r.crashed() {
        let class = if c.starts_with("panic") {
            let site = c.split(" at ").nth(1).and_then(|s| s.split(':').next()).unwrap_or("").rsplit('/').next().unwrap_or("").to_owned();
            format!("crash/panic@{site}")
        } else {
            format!("crash/{}", c.split_whitespace().next().unwrap_or(""))
        };
        vio.push(v(class, c));
        return (vio, probes);
    }
    if r.usage_error() {
        vio.push(v("usage-error", String::from_utf8_lossy(&r.stderr).lines().next().unwrap_or("").to_owned()));
        return (vio, probes);
    }
    let root_prefix = format!("{}/", r.root);
    let unroot = |p: &str| -> String { if let Some(rest) = p.strip_prefix(&root_prefix) { format!("@ROOT@/{rest}") } else { p.to_owned() } };
    // Only a fault that was DELIVERED can oblige the compiler to anything: a fault planned for a call this
    // implementation never makes (realpath of a file it identifies by device and inode, say) changes nothing.
    let mut fired: BTreeSet<(&'static str, String)> = BTreeSet::new();
    for e in &r.trace {
        if let Ev::Fs { op, path, fault, .. } = &e.kind {
            if fault == "errno" {
                let cat = match op.as_str() {
                    "open" | "read" => "open_or_read",
                    "opendir" => "opendir",
                    "readdir" => "readdir",
                    "stat" | "lstat" => "stat",
                    "realpath" => "realpath",
                    _ => continue,
                };
                fired.insert((cat, path.clone()));
            }
        }
    }
    let mut faults = faults_of(&s.sim);
    faults.open_or_read.retain(|p| fired.contains(&("open_or_read", p.clone())));
    faults.opendir.retain(|p| fired.contains(&("opendir", p.clone())));
    faults.readdir.retain(|p, _| fired.contains(&("readdir", p.clone())));
    faults.stat.retain(|p| fired.contains(&("stat", p.clone())));
    faults.realpath.retain(|p| fired.contains(&("realpath", p.clone())));
    let fired_paths: BTreeSet<String> = fired.iter().map(|(_, p)| p.clone()).collect();
    // the canary is not part of the question
    let sources: Vec<String> = meta.sources.iter().filter(|p| Some(*p) != meta.canary.as_ref()).cloned().collect();
    let exp = expected(&s.world, &sources, &meta.references, &faults);
    let fs = MFs::from_world(&s.world);
    let cwd = s.world.cwd.trim_end_matches('/').to_owned();
    let diags = parse_diagnostics(&r.stderr, false);
    let errors: Vec<&Diag> = diags.iter().filter(|d| d.error).collect();
    let spawns = r.trace.iter().filter(|e| matches!(e.kind, Ev::Spawn { .. })).count();
    if exp.loops {
        probes.push("looping link below a reference directory");
    }
    if exp.dir_cycles {
        probes.push("link back to a directory the walk is inside of");
    }
    if !exp.duplicates.is_empty() {
        probes.push("same file reached twice within one list");
    }
    if r.trace.iter().any(|e| matches!(&e.kind, Ev::Fs { fault, .. } if fault == "errno")) {
        probes.push("libc fault (errno) delivered");
    }
    if r.trace.iter().any(|e| matches!(&e.kind, Ev::Fs { fault, .. } if fault == "short" || fault == "eintr")) {
        probes.push("short read / EINTR on an input file");
    }

    let identity_of_spelled = |p: &str| -> Option<String> {
        let c = fs.resolve(&cwd, &unroot(p), true).ok()?;
        let n = fs.nodes.get(&c)?;
        // a Slice file without a module declaration has no place in the request; it is known by its path
        Some(n.module.clone().unwrap_or_else(|| format!("<{c}>")))
    };

    if !exp.io_errors.is_empty() {
        probes.push("I/O error expected");
        // every offending argument / entry is reported by an E001 naming it or something below it
        for bad in &exp.io_errors {
            let bad_canon = fs.entry_identity(&cwd, &unroot(bad));
            let hit = errors.iter().any(|d| {
                d.code == "E001"
                    && path_candidates(&d.message).iter().any(|p| {
                        let p = unroot(p);
                        let b = bad.trim_end_matches('/');
                        if p == *bad || p == b || p.starts_with(&format!("{b}/")) {
                            return true;
                        }
                        // the same entry (or something below it) under another spelling
                        let same_entry = match (fs.entry_identity(&cwd, &p), &bad_canon) {
                            (Some(pc), Some(bc)) => pc == *bc || pc.starts_with(&format!("{bc}/")) || bc.is_empty(),
                            _ => false,
                        };
                        // ... or another name (a link, or the target of the link) for the same file: which of the
                        // two spellings survives de-duplication depends on the listing order
                        let same_target = match (fs.target_identity(&cwd, &p), fs.target_identity(&cwd, &unroot(bad))) {
                            (Some(pc), Some(bc)) => pc == bc || pc.starts_with(&format!("{bc}/")),
                            _ => false,
                        };
                        same_entry || same_target
                    })
            });
            if !hit {
                vio.push(v("unreadable-input-not-reported", format!("'{bad}' cannot be compiled (missing, not a Slice file, a directory given as source, inaccessible or undecodable) but no E001 names it; errors: {:?}", errors.iter().map(|d| d.message.clone()).collect::<Vec<_>>())));
            }
        }
        if r.exit == Exit::Code(0) {
            vio.push(v("io-error-without-failure", format!("exit {:?}", r.exit)));
        }
        if spawns > 0 {
            vio.push(v("generation-despite-io-error", format!("{spawns} generator(s) started")));
        }
        if diags.iter().any(|d| d.code != "E001" && d.code != "DuplicateFile") {
            vio.push(v("parsed-despite-io-error", format!("{:?}", diags.iter().map(|d| format!("{}: {}", d.code, d.message)).collect::<Vec<_>>())));
        }
        return (vio, probes);
    }

    if !errors.is_empty() || r.exit != Exit::Code(0) {
        // an E001 about a path on which a hard fault was delivered is always a legitimate answer
        let about_fired = |p: &str| -> bool {
            let p = unroot(p);
            [fs.target_identity(&cwd, &p), fs.entry_identity(&cwd, &p)].into_iter().flatten().any(|c| fired_paths.iter().any(|f| *f == c || c.starts_with(&format!("{f}/")) || f.starts_with(&format!("{c}/"))))
        };
        let optional = |d: &Diag| -> bool { d.code == "E001" && path_candidates(&d.message).iter().any(|p| exp.optional_errors.iter().any(|o| *o == unroot(p)) || about_fired(p)) };
        if meta.canary.is_some() {
            // The generator of this case expected an I/O error and planted a file with a syntax error; no I/O error is
            // due after all (the planned fault was never delivered, or not where the model thought), so the planted
            // file is parsed and rejected - unless an optional I/O error stopped the compiler before parsing.
            probes.push("planned fault not delivered: the planted syntax error is the expected outcome");
            let rejected_by_parser = errors.iter().any(|d| d.code != "E001");
            // (the statement is silent about link cycles: an I/O error is an acceptable answer to one)
            let stopped_by_optional_error = !errors.is_empty() && (errors.iter().all(|d| optional(d)) || (exp.loops && errors.iter().all(|d| d.code == "E001")));
            if r.exit == Exit::Code(0) || spawns > 0 || !(rejected_by_parser || stopped_by_optional_error) {
                vio.push(v("erroneous-program-not-rejected", format!("a listed file has a syntax error, yet exit {:?}, {spawns} generator(s) started, errors {:?}", r.exit, errors.iter().map(|d| format!("{}: {}", d.code, d.message)).collect::<Vec<_>>())));
            }
            return (vio, probes);
        }
        if !errors.is_empty() && errors.iter().all(|d| optional(d)) && spawns == 0 {
            probes.push("un-stat-able plain file reported (optional)");
            return (vio, probes);
        }
        if exp.loops && errors.iter().all(|d| d.code == "E001") {
            // the statement is silent about link cycles: an I/O error is an acceptable answer
            probes.push("link cycle answered with an I/O error");
            return (vio, probes);
        }
        vio.push(v("valid-file-set-rejected", format!("every argument denotes readable Slice files, yet exit {:?} with {:?}", r.exit, errors.iter().map(|d| format!("{}: {}", d.code, d.message)).collect::<Vec<_>>())));
        return (vio, probes);
    }

    if meta.canary.is_some() {
        vio.push(v("erroneous-program-not-rejected", format!("a listed file has a syntax error, yet exit {:?} without any error", r.exit)));
        return (vio, probes);
    }
    // the request as the capture generator received it
    let hist = generator_histories(&r.trace);
    let Some(h) = hist.iter().find(|h| h.program == CAPTURE && h.spawn_errno.is_none()) else {
        vio.push(v("generator-not-started", "clean compile but the generator was not started"));
        return (vio, probes);
    };
    let req = match parse_request(&h.stdin_accepted) {
        Ok(q) => q,
        Err(e) => {
            vio.push(v("request-not-decodable", format!("{e}")));
            return (vio, probes);
        }
    };
    let got_sources: Vec<String> = req.sources.iter().map(|f| f.module.clone()).collect();
    let got_refs: Vec<String> = req.references.iter().map(|f| f.module.clone()).collect();
    // the path sent along must denote the very file whose content was compiled
    for f in req.sources.iter().chain(req.references.iter()) {
        match identity_of_spelled(&f.path) {
            Some(id) if id == f.module => {}
            other => vio.push(v("path-and-content-disagree", format!("the request lists '{}' with module {} but that path denotes {:?}", f.path, f.module, other))),
        }
    }
    if got_sources != exp.sources {
        vio.push(v("source-list-differs", format!("expected sources {:?} (first occurrence of each listed file, in the order given); the request has {:?}", exp.sources, got_sources)));
    }
    let got_ref_set: BTreeSet<String> = got_refs.iter().cloned().collect();
    if got_ref_set.len() != got_refs.len() || got_sources.iter().any(|s| got_ref_set.contains(s)) || got_sources.iter().collect::<BTreeSet<_>>().len() != got_sources.len() {
        vio.push(v("file-compiled-twice", format!("sources {:?}, references {:?}", got_sources, got_refs)));
    }
    if got_ref_set != exp.refs {
        let missing: Vec<&String> = exp.refs.difference(&got_ref_set).collect();
        let extra: Vec<&String> = got_ref_set.difference(&exp.refs).collect();
        vio.push(v(
            if !missing.is_empty() { "reference-file-dropped" } else { "unexpected-reference-file" },
            format!("expected reference files {:?}; missing {:?}, unexpected {:?}", exp.refs, missing, extra),
        ));
    }
    // (The order among reference files is not judged: the statement fixes the order of the sources only.)
    // DuplicateFile warnings
    let mut got_dups: BTreeMap<String, usize> = BTreeMap::new();
    for d in diags.iter().filter(|d| d.code == "DuplicateFile") {
        match path_candidates(&d.message).iter().find_map(|p| identity_of_spelled(p)) {
            Some(id) => *got_dups.entry(id).or_default() += 1,
            None => vio.push(v("duplicate-warning-for-unknown-path", d.message.clone())),
        }
    }
    if meta.allow.is_some() {
        // The lint is allowed: whether a warning is shown is C13's subject, not this property's. Everything above
        // (the ordered source list, the reference set, nothing compiled twice) was judged all the same.
        if !exp.duplicates.is_empty() {
            probes.push("duplicate inside a list with the DuplicateFile lint allowed");
        }
    } else if exp.loops {
        for id in exp.duplicates.keys() {
            if !got_dups.contains_key(id) {
                vio.push(v("duplicate-not-reported", format!("{id} is reached more than once within one list but no DuplicateFile warning names it")));
            }
        }
    } else if got_dups != exp.duplicates {
        vio.push(v(
            if got_dups.values().sum::<usize>() < exp.duplicates.values().sum::<usize>() { "duplicate-not-reported" } else { "unexpected-duplicate-warning" },
            format!("expected DuplicateFile warnings {:?}, got {:?}", exp.duplicates, got_dups),
        ));
    }
    if diags.iter().any(|d| d.code != "DuplicateFile") {
        vio.push(v("unexpected-diagnostic", format!("{:?}", diags.iter().filter(|d| d.code != "DuplicateFile").map(|d| format!("{}: {}", d.code, d.message)).collect::<Vec<_>>())));
    }
    (vio, probes)
}

pub struct C17;

impl Property for C17 {
    fn id(&self) -> &'static str {
        "C17"
    }
    fn generate(&self, rng: &mut Rng, _index: u64, _tier: &str) -> Case {
        Case::single(generate(rng))
    }
    fn evaluate(&self, exec: &Executor, case: &Case) -> Result<Outcome, String> {
        let s = &case.scenarios[0];
        let r = exec.run(s)?;
        let (violations, probes) = judge(s, &r);
        let meta: Meta17 = serde_json::from_value(s.meta.clone()).unwrap_or_default();
        let mut o = Outcome { violations, probes, runs: 1, digest: if meta.absolute { 0 } else { observable_digest(&r) }, ..Default::default() };
        trace_facts(&r, &mut o);
        // for C17 a run is non-trivial when some file is reachable twice, an error is expected or a link is involved
        let links = s.world.entries.iter().any(|e| matches!(e.kind, EntryKind::Symlink { .. }));
        o.nontrivial |= links || o.probes.iter().any(|p| p.contains("twice") || p.contains("I/O error"));
        // the signature of a C17 run is the shape of its world and arguments rather than the process events
        let mut f = refcodec::util::Fnv(o.signature);
        for e in &s.world.entries {
            f.update(e.path.as_bytes());
            f.update(&[e.mode.unwrap_or(0) as u8]);
        }
        for a in &s.argv {
            f.update(a.as_bytes());
        }
        o.signature = f.0;
        *o.stats.entry(format!("arguments: {}", meta.sources.len() + meta.references.len())).or_default() += 1;
        if meta.absolute {
            *o.stats.entry("worlds with an absolute spelling".into()).or_default() += 1;
        }
        if !s.world.cwd.is_empty() {
            *o.stats.entry("compiler started in a sub-directory".into()).or_default() += 1;
        }
        Ok(o)
    }
    fn expected_probes(&self) -> Vec<&'static str> {
        vec![
            "I/O error expected",
            "looping link below a reference directory",
            "link back to a directory the walk is inside of",
            "libc fault (errno) delivered",
            "same file reached twice within one list",
            "short read / EINTR on an input file",
            "link cycle answered with an I/O error",
            "un-stat-able plain file reported (optional)",
            "duplicate inside a list with the DuplicateFile lint allowed",
        ]
    }
    fn extra_shrinks(&self, case: &Case) -> Vec<Case> {
        // drop arguments and world entries, keeping meta and argv in step
        let s = &case.scenarios[0];
        let meta: Meta17 = serde_json::from_value(s.meta.clone()).unwrap_or_default();
        let mut out = Vec::new();
        let rebuild = |m: &Meta17, world: &World| -> Scenario {
            let mut c = s.clone();
            c.world = world.clone();
            let mut argv = m.sources.clone();
            for r in &m.references {
                argv.push("-R".into());
                argv.push(r.clone());
            }
            if let Some(a) = &m.allow {
                argv.push("-A".into());
                argv.push(a.clone());
            }
            argv.push("-G".into());
            argv.push(CAPTURE.into());
            c.argv = argv;
            c.meta = serde_json::to_value(m).unwrap();
            c
        };
        for i in 0..meta.sources.len() {
            if meta.sources.len() > 1 && Some(&meta.sources[i]) != meta.canary.as_ref() {
                let mut m = meta.clone();
                m.sources.remove(i);
                out.push(Case::single(rebuild(&m, &s.world)));
            }
        }
        for i in 0..meta.references.len() {
            let mut m = meta.clone();
            m.references.remove(i);
            out.push(Case::single(rebuild(&m, &s.world)));
        }
        for i in (0..s.world.entries.len()).rev() {
            let p = &s.world.entries[i].path;
            let has_children = s.world.entries.iter().any(|e| e.path.starts_with(&format!("{p}/")));
            if !has_children && p != "zz_canary.slice" {
                let mut w = s.world.clone();
                w.entries.remove(i);
                out.push(Case::single(rebuild(&meta, &w)));
            }
        }
        for i in 0..s.world.entries.len() {
            if s.world.entries[i].mode.is_some() {
                let mut w = s.world.clone();
                w.entries[i].mode = None;
                out.push(Case::single(rebuild(&meta, &w)));
            }
        }
        if !s.world.cwd.is_empty() {
            // not attempted: the spellings depend on the working directory
        }
        out
    }
    fn rule(&self) -> String {
        "One case = one seeded world: a tree of depth <= 4 with *.slice files (each declaring a unique module, so identity is visible in the request), other files, directories named x.slice, links to files and directories, dangling and looping links, link cycles, mode bits (unreadable file; directory 000 / --x / r-- / -wx), non-UTF-8 content, permuted creation order; an argument list of 1..4 sources and 0..4 -R references spelled through ./, //, /./, dir/../dir, links and absolute paths, with repeats inside and overlaps between the lists, in random interleaving; optional working directory below the root; optional libc fault (EIO/EACCES/EMFILE on open, read, opendir, mid-readdir, realpath; short reads and EINTR as transparent faults). A reference model over the world description predicts the ordered source list, the reference set, the DuplicateFile warnings and the arguments that must produce E001; observation = the request captured by a simulated generator + the diagnostic stream. distinct_nontrivial = distinct (world shape, argv) among cases with a link, a file reachable twice or an expected I/O error.".into()
    }
    fn components(&self) -> Value {
        let mut c = crate::props::host_components();
        c["reference"] = json!(["file-system model with links and owner permission bits", "model of the compiled file set", "refcodec request parser"]);
        c
    }
}
