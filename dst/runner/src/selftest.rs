//! `dst selftest`: checks on the machinery itself (not part of any verdict).
//!  1. catalogue labels: every template, several instantiations, compiled by the real compiler inside simhost with
//!     no generators: the diagnostics must match the class the template claims by construction.
//!  2. determinism: N scenarios x 2 executions at two worker counts, observable digests compared.

use crate::catalogue::{self, Class};
use crate::hostcase;
use crate::simcheck::{observable_digest, Case, Property};
use crate::simrun::*;
use crate::ws::Ws;
use refcodec::util::Rng;
use simproto::*;

pub fn run(ws: &Ws, seed: u64) -> Result<i32, String> {
    ws.build(&["simhost", "codecsim"])?;
    let exec = Executor::new(&ws.bin("simhost"), "selftest")?;
    let mut bad = 0;
    // ---- 1. catalogue
    for t in &catalogue::drawable() {
        for k in 0..6u64 {
            let mut rng = Rng::derive(seed, t, k);
            let p = catalogue::instantiate(t, &mut rng);
            let mut orders: Vec<Vec<usize>> = vec![(0..p.files.len()).collect()];
            let mut rev: Vec<usize> = (0..p.files.len()).rev().collect();
            if p.files.len() > 1 {
                orders.push(rev.clone());
                rng.shuffle(&mut rev);
                orders.push(rev);
            }
            for order in orders {
                let mut world = World::default();
                let mut argv = Vec::new();
                for i in &order {
                    let f = &p.files[*i];
                    world.entries.push(Entry { path: f.name.clone(), kind: EntryKind::File { content: f.text.clone(), hex: None }, mode: None });
                    argv.push(f.name.clone());
                }
                let s = Scenario { world, argv, sim: Sim { hash_seed: k, ..Default::default() }, note: String::new(), meta: serde_json::Value::Null };
                let r = exec.run(&s)?;
                let diags = parse_diagnostics(&r.stderr, false);
                let errors: Vec<&Diag> = diags.iter().filter(|d| d.error).collect();
                let warnings: Vec<&Diag> = diags.iter().filter(|d| !d.error).collect();
                let ok = match p.class {
                    Class::Clean => diags.is_empty() && r.exit == Exit::Code(0),
                    Class::WarnOnly(n) => {
                        let mut got: Vec<&str> = warnings.iter().map(|d| d.code.as_str()).collect();
                        let mut want = p.lints.clone();
                        got.sort();
                        want.sort();
                        errors.is_empty() && warnings.len() == n && got == want && r.exit == Exit::Code(0)
                    }
                    Class::Error => {
                        let all_codes = p.codes.iter().all(|c| errors.iter().any(|d| d.code == *c));
                        !errors.is_empty() && all_codes && r.exit != Exit::Code(0)
                    }
                };
                if !ok || r.crashed().is_some() {
                    bad += 1;
                    println!("selftest: template {t} (instance {k}, order {order:?}) is labelled {:?} {:?} but the compiler says exit {:?}: {:?} {}", p.class, p.codes, r.exit, diags.iter().map(|d| format!("{}:{}", d.code, d.message)).collect::<Vec<_>>(), r.crashed().unwrap_or_default());
                }
            }
        }
    }
    println!("selftest: catalogue labels checked, {bad} mismatch(es)");
    // random programs: those without an injected error should be accepted, the others rejected
    let (mut ok_acc, mut ok_n, mut bad_rej, mut bad_n) = (0, 0, 0, 0);
    for k in 0..120u64 {
        let mut rng = Rng::derive(seed, "random-program", k);
        let inject = (k % 5) as u8;
        let p = catalogue::random_program(&mut rng, inject);
        let mut world = World::default();
        let mut argv = Vec::new();
        for f in &p.files {
            world.entries.push(Entry { path: f.name.clone(), kind: EntryKind::File { content: f.text.clone(), hex: None }, mode: None });
            argv.push(f.name.clone());
        }
        let s = Scenario { world, argv, sim: Sim::default(), note: String::new(), meta: serde_json::Value::Null };
        let r = exec.run(&s)?;
        let diags = parse_diagnostics(&r.stderr, false);
        let accepted = !diags.iter().any(|d| d.error) && r.exit == Exit::Code(0);
        if r.crashed().is_some() {
            println!("selftest: random program {k} (inject {inject}) crashes the compiler: {}", r.crashed().unwrap());
        }
        if p.class == Class::Clean {
            ok_n += 1;
            ok_acc += accepted as u32;
            if !accepted {
                bad += 1;
                println!("selftest: random program {k} without injected error is rejected: {:?}", diags.iter().filter(|d| d.error).map(|d| format!("{}:{}", d.code, d.message)).collect::<Vec<_>>());
            }
        } else {
            bad_n += 1;
            bad_rej += (!accepted) as u32;
            if accepted {
                bad += 1;
                println!("selftest: random program {k} with injected error {inject} is accepted");
            }
        }
    }
    println!("selftest: random programs: {ok_acc}/{ok_n} without injected error accepted, {bad_rej}/{bad_n} with injected error rejected");

    // ---- 2. determinism of whole executions
    let props: Vec<Box<dyn Property>> = vec![Box::new(crate::props::C18), Box::new(crate::props::C07)];
    let mut mismatches = 0;
    let mut audited = 0;
    for prop in &props {
        for workers in [1usize, 16] {
            let cases: Vec<Case> = (0..48u64).map(|i| prop.generate(&mut Rng::derive(seed ^ 0xABCD, prop.id(), i), i, "quick")).collect();
            let digests = std::sync::Mutex::new(vec![(0u64, 0u64); cases.len()]);
            let next = std::sync::atomic::AtomicUsize::new(0);
            std::thread::scope(|sc| {
                for _ in 0..workers {
                    sc.spawn(|| loop {
                        let i = next.fetch_add(1, std::sync::atomic::Ordering::Relaxed);
                        if i >= cases.len() {
                            break;
                        }
                        let a = exec.run(&cases[i].scenarios[0]).map(|r| observable_digest(&r)).unwrap_or(1);
                        let b = exec.run(&cases[i].scenarios[0]).map(|r| observable_digest(&r)).unwrap_or(2);
                        digests.lock().unwrap()[i] = (a, b);
                    });
                }
            });
            for (i, (a, b)) in digests.into_inner().unwrap().into_iter().enumerate() {
                audited += 1;
                if a != b {
                    mismatches += 1;
                    println!("selftest: {} case {i} at {workers} worker(s): two executions differ", prop.id());
                }
            }
        }
    }
    println!("selftest: determinism: {audited} scenario pairs, {mismatches} mismatch(es)");
    let _ = hostcase::GEN_PATHS;

    // ---- 3. stub conformance: simulated process world vs. real processes
    let conf = crate::conformance::run(ws, &exec, 200, seed, 16)?;
    println!("selftest: stub conformance: {} scenario(s) also executed against the real binary with real generator processes, {} agree, {} disagree; behaviours {:?}", conf.scenarios, conf.agree, conf.disagreements.len(), conf.kinds);
    for d in conf.disagreements.iter().take(10) {
        println!("selftest:   {d}");
    }
    Ok(if bad + mismatches + conf.disagreements.len() > 0 { 2 } else { 0 })
}
