//! C15 — results are reproducible and do not depend on the order of the inputs.
//!
//! Differential executions of one scenario. The nondeterminism the property worries about is not observed but SET:
//! hash keys, heap layout, generator schedule, pipe capacities, listing order of directories, order of arguments.
//!
//!  * "identical": same world, same argv, different perturbation vector  => byte-identical stdout, stderr, exit
//!    status, bytes received by every generator, generated files.
//!  * "equivalent": permuted sources / references, files moved between the two lists, other creation order of a
//!    reference directory => same accepted/rejected verdict; for accepted programs byte-identical per-file request
//!    chunks and the same multiset of warnings.

use crate::catalogue::{self, Class};
use crate::gens;
use crate::hostcase::{generator_spec, is_generator_phase, Violation};
use crate::simcheck::{observable_digest, trace_facts, Case, Outcome, Property};
use crate::simrun::*;
use refcodec::schema::parse_request;
use refcodec::util::Rng;
use serde::{Deserialize, Serialize};
use serde_json::{json, Value};
use simproto::*;
use std::collections::BTreeMap;

fn v(class: impl Into<String>, detail: impl Into<String>) -> Violation {
    Violation { class: class.into(), detail: detail.into() }
}

#[derive(Clone, Debug, Serialize, Deserialize, Default)]
pub struct Meta15 {
    pub template: String,
    /// what distinguishes this scenario from the base one (for humans)
    #[serde(default)]
    pub variant: String,
    pub generators: Vec<String>,
}

struct Layout {
    /// file name -> (world path, how it is passed: 0 source, 1 explicit reference, 2 through the reference directory)
    files: Vec<(String, String, u8)>,
    /// index of a file that is listed a second time (as "./path") right after the position given
    duplicate: Option<(usize, usize)>,
}

fn perturb(rng: &mut Rng, sim: &Sim) -> Sim {
    let mut s = sim.clone();
    s.hash_seed = rng.next_u64();
    s.heap_shift = (rng.below(256) * 4096 + rng.below(4096)) as usize;
    s.sched = *rng.pick(&[Sched::Random, Sched::CompilerFirst, Sched::GeneratorsEager]);
    s.choice_seed = rng.next_u64();
    s.buggify = Buggify {
        short_pipe_write: rng.chance(1, 2),
        eintr_pipe_write: rng.chance(1, 2),
        transparent_file_read: rng.chance(1, 2),
        transparent_file_write: rng.chance(1, 2),
    };
    for list in s.generators.values_mut() {
        for g in list.iter_mut() {
            let hint = 4000;
            g.stdin_cap = *rng.pick(&[64usize, 512, 4096, 65536]);
            g.stdout_cap = *rng.pick(&[64usize, 512, 4096, 65536]);
            g.stderr_cap = *rng.pick(&[64usize, 512, 4096, 65536]);
            gens::normalise(g, hint);
        }
    }
    s
}

fn build(layout: &Layout, program: &catalogue::Program, order: &[usize], dir_order: &[usize], gen_args: &[(String, String)], sim: &Sim, variant: &str, extra: &[String]) -> Scenario {
    let mut world = World::default();
    // files outside the reference directory first (their creation order is irrelevant), then the directory's
    // entries in the requested creation order
    for (name, path, how) in &layout.files {
        if *how != 2 {
            let text = &program.files.iter().find(|f| &f.name == name).unwrap().text;
            world.entries.push(Entry { path: path.clone(), kind: EntryKind::File { content: text.clone(), hex: None }, mode: None });
        }
    }
    let in_dir: Vec<&(String, String, u8)> = layout.files.iter().filter(|f| f.2 == 2).collect();
    if !in_dir.is_empty() {
        world.entries.push(Entry { path: "refs".into(), kind: EntryKind::Dir, mode: None });
        for i in dir_order {
            if let Some((name, path, _)) = in_dir.get(*i) {
                let text = &program.files.iter().find(|f| &f.name == name).unwrap().text;
                world.entries.push(Entry { path: path.clone(), kind: EntryKind::File { content: text.clone(), hex: None }, mode: None });
            }
        }
    }
    world.entries.push(Entry { path: "out".into(), kind: EntryKind::Dir, mode: None });
    let mut argv: Vec<String> = Vec::new();
    let mut dir_given = false;
    for i in order {
        let (_, path, how) = &layout.files[*i];
        match how {
            0 => argv.push(path.clone()),
            1 => {
                argv.push("-R".into());
                argv.push(path.clone());
            }
            _ => {
                if !dir_given {
                    argv.push("-R".into());
                    argv.push("refs".into());
                    dir_given = true;
                }
            }
        }
    }
    if let Some((file, after)) = layout.duplicate {
        let (_, path, how) = &layout.files[file];
        if *how != 2 {
            // insert after the `after`-th listed argument of the same kind, wherever the permutation put things
            let spelled = format!("./{path}");
            let mut at = argv.len();
            let mut seen = 0;
            let mut i = 0;
            while i < argv.len() {
                let is_ref = argv[i] == "-R";
                if seen == after {
                    at = i;
                    break;
                }
                seen += 1;
                i += if is_ref { 2 } else { 1 };
            }
            if *how == 0 {
                argv.insert(at, spelled);
            } else {
                argv.insert(at, spelled);
                argv.insert(at, "-R".into());
            }
        }
    }
    let mut names = Vec::new();
    for (path, _) in sim.generators.iter() {
        argv.push("-G".into());
        argv.push(generator_spec(path, gen_args));
        names.push(path.clone());
    }
    argv.push("-O".into());
    argv.push("out".into());
    argv.extend(extra.iter().cloned());
    let meta = Meta15 { template: program.template.to_owned(), variant: variant.to_owned(), generators: names };
    Scenario { world, argv, sim: sim.clone(), note: format!("C15 {} [{}]", program.template, variant), meta: serde_json::to_value(&meta).unwrap() }
}

fn permutations(n: usize) -> Vec<Vec<usize>> {
    fn rec(cur: &mut Vec<usize>, used: &mut Vec<bool>, n: usize, out: &mut Vec<Vec<usize>>) {
        if cur.len() == n {
            out.push(cur.clone());
            return;
        }
        for i in 0..n {
            if !used[i] {
                used[i] = true;
                cur.push(i);
                rec(cur, used, n, out);
                cur.pop();
                used[i] = false;
            }
        }
    }
    let mut out = Vec::new();
    rec(&mut Vec::new(), &mut vec![false; n], n, &mut out);
    out
}

pub fn generate(rng: &mut Rng, tier: &str) -> Case {
    let template = *rng.pick(&catalogue::drawable());
    let mut program = if rng.chance(2, 5) {
        // a seeded random program (DAG of entities spread over files and modules), sometimes with an injected error
        let inject = match rng.below(9) {
            0 => 1,
            1 => 2,
            2 => 3,
            3 => 4,
            _ => 0,
        };
        catalogue::random_program(rng, inject)
    } else {
        catalogue::instantiate(template, rng)
    };
    // composite programs: two templates side by side (their modules differ), at most 4 files kept in total so that
    // all permutations stay affordable; state that leaks from one file's processing into another's has more to hit
    if rng.chance(1, 3) && program.files.len() <= 3 {
        let other = catalogue::instantiate(*rng.pick(&catalogue::drawable()), rng);
        for f in other.files.into_iter() {
            if program.files.len() >= 4 {
                break;
            }
            program.files.push(catalogue::SrcFile { name: format!("x_{}", f.name), text: f.text });
        }
    }
    // a file that declares no module: compiled like the others, absent from every request, wherever it is listed
    if rng.chance(1, 6) && program.files.len() <= 3 {
        program.files.push(catalogue::SrcFile { name: "blank.slice".into(), text: catalogue::blank_text(rng) });
    }
    let n = program.files.len();
    // how each file is passed
    let mut files = Vec::new();
    let use_dir = n >= 2 && rng.chance(1, 2);
    for (i, f) in program.files.iter().enumerate() {
        let how: u8 = if i == 0 {
            0
        } else {
            match rng.below(4) {
                0 | 1 => 0,
                2 => 1,
                _ => if use_dir { 2 } else { 1 },
            }
        };
        let path = if how == 2 { format!("refs/{}", f.name) } else { f.name.clone() };
        files.push((f.name.clone(), path, how));
    }
    let duplicate = if rng.chance(1, 4) { Some((rng.usize_below(n), rng.usize_below(n + 1))) } else { None };
    let layout = Layout { files, duplicate };
    // generators: schedule-independent behaviours only
    let mut sim = Sim { hash_seed: rng.next_u64(), choice_seed: rng.next_u64(), ..Default::default() };
    let n_gens = 1 + rng.usize_below(2);
    for i in 0..n_gens {
        let reply = crate::hostcase::reply_from_pool_pub(rng, 2);
        let mut b = if rng.chance(2, 3) { gens::ok(rng, &reply, false) } else { gens::failing(rng, &reply, 2000, false) };
        let mut tries = 0;
        while !b.schedule_independent && tries < 20 {
            b = gens::failing(rng, &reply, 2000, false);
            tries += 1;
        }
        if !b.schedule_independent {
            b = gens::ok(rng, &reply, false);
        }
        let mut g = b.gen.clone();
        gens::normalise(&mut g, 4000);
        sim.generators.insert(crate::hostcase::GEN_PATHS[i].to_owned(), vec![g]);
    }
    // 0..5 arguments: the request carries them in the order they were written
    let gen_args: Vec<(String, String)> = (0..rng.usize_below(6)).map(|k| (format!("{}{k}", *rng.pick(&["k", "opt", "name-", "z"])), if rng.chance(1, 5) { String::new() } else { format!("v{}", rng.below(1000)) })).collect();
    let mut extra: Vec<String> = Vec::new();
    if rng.chance(1, 4) {
        extra.push("--diagnostic-format".into());
        extra.push("json".into());
    }
    if rng.chance(1, 5) {
        extra.push("-A".into());
        extra.push((*rng.pick(&["Deprecated", "BrokenDocLink", "All"])).into());
    }
    let identity: Vec<usize> = (0..n).collect();
    let n_in_dir = layout.files.iter().filter(|f| f.2 == 2).count();
    let dir_identity: Vec<usize> = (0..n_in_dir).collect();
    let base = build(&layout, &program, &identity, &dir_identity, &gen_args, &sim, "base", &extra);
    let mut scenarios = vec![base];
    let mut relations = Vec::new();

    // ---- identical: other perturbation vectors
    let n_ident = if tier == "quick" { 2 } else { 6 };
    for k in 0..n_ident {
        let p = perturb(rng, &sim);
        scenarios.push(build(&layout, &program, &identity, &dir_identity, &gen_args, &p, &format!("perturbation {k}"), &extra));
        relations.push("identical".to_owned());
    }
    // ---- equivalent: reorderings
    let n_perm = if tier == "quick" { 2 } else { 23 };
    let mut perms = if n <= 5 {
        let mut all = permutations(n);
        all.retain(|p| *p != identity);
        rng.shuffle(&mut all);
        all
    } else {
        // too many to enumerate: the reversal, a rotation and seeded shuffles
        let mut some: Vec<Vec<usize>> = Vec::new();
        let mut rev = identity.clone();
        rev.reverse();
        some.push(rev);
        let mut rot = identity.clone();
        rot.rotate_left(1 + rng.usize_below(n - 1));
        some.push(rot);
        while some.len() < n_perm + 2 {
            let mut s = identity.clone();
            rng.shuffle(&mut s);
            if s != identity {
                some.push(s);
            }
        }
        rng.shuffle(&mut some);
        some
    };
    perms.truncate(n_perm);
    for p in perms.into_iter().take(n_perm) {
        let ps = perturb(rng, &sim);
        scenarios.push(build(&layout, &program, &p, &dir_identity, &gen_args, &ps, &format!("argument order {p:?}"), &extra));
        relations.push("equivalent".to_owned());
    }
    if n_in_dir >= 2 {
        let mut d = dir_identity.clone();
        d.reverse();
        scenarios.push(build(&layout, &program, &identity, &d, &gen_args, &sim, "reference directory created in reverse order", &extra));
        relations.push("equivalent".to_owned());
    }
    // ---- equivalent: a file moves between the lists
    if n >= 2 {
        for _ in 0..(if tier == "quick" { 1 } else { 3 }) {
            // any file may move, the first one included (then, possibly, every input is a reference)
            let i = rng.usize_below(n);
            let mut l2 = Layout { files: layout.files.clone(), duplicate: layout.duplicate };
            let how = l2.files[i].2;
            let new_how = match how {
                0 => 1,
                1 => 0,
                _ => 0,
            };
            l2.files[i].2 = new_how;
            l2.files[i].1 = l2.files[i].0.clone();
            // the path changes when a file leaves the reference directory: compare such chunks by file name
            let n_dir2 = l2.files.iter().filter(|f| f.2 == 2).count();
            let d2: Vec<usize> = (0..n_dir2).collect();
            scenarios.push(build(&l2, &program, &identity, &d2, &gen_args, &sim, &format!("file {} moved between sources and references", l2.files[i].0), &extra));
            // repeats are a within-list matter: moving a file to the other list legitimately changes them
            relations.push("equivalent-moved".to_owned());
        }
    }
    let _ = Class::Clean;
    Case { scenarios, relations }
}

struct Obs {
    crashed: Option<String>,
    exit: Exit,
    stdout: Vec<u8>,
    stderr: Vec<u8>,
    requests: Vec<Vec<u8>>,
    files: BTreeMap<String, Vec<u8>>,
    accepted: bool,
    compile_error_codes: Vec<String>,
    warnings: Vec<String>,
    /// file name -> chunk bytes with the path field cut out
    chunks: BTreeMap<String, Vec<u8>>,
    chunk_error: Option<String>,
}

fn observe(s: &Scenario, r: &RunResult) -> Obs {
    let json = s.argv.iter().any(|a| a.eq_ignore_ascii_case("json"));
    let diags = parse_diagnostics(&r.stderr, json);
    let meta: Meta15 = serde_json::from_value(s.meta.clone()).unwrap_or_default();
    let reply_paths = crate::hostcase::reply_paths_of(&r.trace);
    let compile_errors: Vec<&Diag> = diags.iter().filter(|d| d.error && !is_generator_phase(d, &meta.generators, &reply_paths)).collect();
    // a warning is identified by its code, its message and the place it points at (file NAME, row, column: the
    // directory part changes when a file moves between the lists)
    let mut warnings: Vec<String> = diags
        .iter()
        .filter(|d| !d.error)
        .map(|d| {
            let loc = d.location.rsplit('/').next().unwrap_or("");
            if d.code == "DuplicateFile" {
                // which of two spellings of one file counts as "the duplicate" legitimately depends on the order
                // (and on the list the file is in after a move): identify the warning by the file it is about
                let name = d
                    .message
                    .split(|c: char| c == '\'' || c == '"' || c == '`' || c.is_whitespace())
                    .map(|t| t.trim_matches(|c: char| matches!(c, ':' | ',' | ';' | '(' | ')')))
                    .find(|t| t.ends_with(".slice"))
                    .map(|t| t.rsplit('/').next().unwrap_or("").to_owned())
                    .unwrap_or_default();
                return format!("DuplicateFile about {name}");
            }
            format!("{}: {} @ {}", d.code, d.message, loc)
        })
        .collect();
    warnings.sort();
    let hist = generator_histories(&r.trace);
    // (a compiler that sends absolute paths sends this execution's world root: not part of the behaviour)
    let strip_root = |bytes: &Vec<u8>| -> Vec<u8> {
        let root = r.root.as_bytes();
        if root.is_empty() {
            return bytes.clone();
        }
        let mut out = Vec::with_capacity(bytes.len());
        let mut i = 0;
        while i < bytes.len() {
            if bytes[i..].starts_with(root) {
                out.extend_from_slice(b"@ROOT@");
                i += root.len();
            } else {
                out.push(bytes[i]);
                i += 1;
            }
        }
        out
    };
    let requests: Vec<Vec<u8>> = hist.iter().filter(|h| h.spawn_errno.is_none()).map(|h| strip_root(&h.stdin_accepted)).collect();
    let mut chunks = BTreeMap::new();
    let mut chunk_error = None;
    if let Some(first) = hist.iter().find(|h| h.spawn_errno.is_none() && h.stdin_error.is_none() && h.stdin_known) {
        match parse_request(&first.stdin_accepted) {
            Ok(req) => {
                for f in req.sources.iter().chain(req.references.iter()) {
                    // The chunk starts with the path string; a file that moved out of the reference directory is
                    // spelled differently, so key by file name and compare the chunk after its path field.
                    let name = f.path.rsplit('/').next().unwrap_or("").to_owned();
                    let bytes = &first.stdin_accepted[f.start..f.end];
                    let mut rd = refcodec::dynval::Reader::new(bytes);
                    let _ = rd.string();
                    if chunks.insert(name.clone(), bytes[rd.pos..].to_vec()).is_some() {
                        chunk_error = Some(format!("file {name} occurs twice in the request"));
                    }
                }
            }
            Err(e) => chunk_error = Some(format!("request does not decode: {e}")),
        }
    }
    let mut files = BTreeMap::new();
    for (p, n) in &r.after {
        if p.starts_with("out/") && n.kind == NodeKind::File {
            files.insert(p.clone(), n.content.clone());
        }
    }
    Obs {
        crashed: r.crashed(),
        exit: r.exit,
        stdout: String::from_utf8_lossy(&r.stdout).replace(&r.root, "@ROOT@").into_bytes(),
        stderr: String::from_utf8_lossy(&r.stderr).replace(&r.root, "@ROOT@").into_bytes(),
        requests,
        files,
        accepted: compile_errors.is_empty(),
        compile_error_codes: compile_errors.iter().map(|d| d.code.clone()).collect(),
        warnings,
        chunks,
        chunk_error,
    }
}

pub fn compare(case: &Case, obs: &[Obs]) -> Vec<Violation> {
    let mut vio = Vec::new();
    let meta: Meta15 = serde_json::from_value(case.scenarios[0].meta.clone()).unwrap_or_default();
    for (i, o) in obs.iter().enumerate() {
        if let Some(c) = &o.crashed {
            let class = if c.starts_with("panic") {
                let site = c.split(" at ").nth(1).and_then(|s| s.split(':').next()).unwrap_or("").rsplit('/').next().unwrap_or("").to_owned();
                format!("crash/panic@{site}")
            } else if c.starts_with("HANG") {
                "hang".to_owned()
            } else {
                format!("crash/{}", c.split_whitespace().next().unwrap_or(""))
            };
            vio.push(v(class, format!("execution {i} ({}): {c}", case.scenarios[i].note)));
        }
        if let Some(e) = &o.chunk_error {
            vio.push(v("request-malformed", format!("execution {i}: {e}")));
        }
    }
    if !vio.is_empty() {
        return vio;
    }
    let base = &obs[0];
    for (i, o) in obs.iter().enumerate().skip(1) {
        let what = &case.scenarios[i].note;
        match case.relations.get(i - 1).map(|s| s.as_str()) {
            Some("identical") => {
                let mut diffs = Vec::new();
                if o.exit != base.exit {
                    diffs.push("exit status");
                }
                if o.stderr != base.stderr {
                    diffs.push("diagnostics");
                }
                if o.stdout != base.stdout {
                    diffs.push("stdout");
                }
                if o.requests != base.requests {
                    diffs.push("generator requests");
                }
                if o.files != base.files {
                    diffs.push("generated files");
                }
                if !diffs.is_empty() {
                    let first_diff = String::from_utf8_lossy(&base.stderr).lines().zip(String::from_utf8_lossy(&o.stderr).lines()).find(|(a, b)| a != b).map(|(a, b)| format!("'{a}' vs '{b}'")).unwrap_or_default();
                    vio.push(v(
                        format!("run-to-run-difference:{}", diffs[0].replace(' ', "-")),
                        format!("same inputs, same options, {what}: {} differ ({first_diff})", diffs.join(", ")),
                    ));
                }
            }
            Some(rel @ ("equivalent" | "equivalent-moved")) => {
                let strip = |w: &Vec<String>| -> Vec<String> { if rel == "equivalent-moved" { w.iter().filter(|x| !x.starts_with("DuplicateFile")).cloned().collect() } else { w.clone() } };
                if o.accepted != base.accepted {
                    let codes = if base.accepted { &o.compile_error_codes } else { &base.compile_error_codes };
                    let mut codes: Vec<String> = codes.clone();
                    codes.sort();
                    codes.dedup();
                    vio.push(v(
                        format!("verdict-depends-on-input-order:{}:{}", meta.template, codes.join("+")),
                        format!("template {}: accepted={} in the base order, accepted={} with {what}", meta.template, base.accepted, o.accepted),
                    ));
                    continue;
                }
                if !base.accepted {
                    continue;
                }
                if o.chunks != base.chunks {
                    let differing: Vec<&String> = base.chunks.keys().filter(|k| o.chunks.get(*k) != base.chunks.get(*k)).collect();
                    let missing: Vec<&String> = o.chunks.keys().filter(|k| !base.chunks.contains_key(*k)).collect();
                    vio.push(v("compiled-content-depends-on-input-order", format!("{what}: the encoded content of {differing:?} differs (files only in one request: {missing:?})")));
                }
                if strip(&o.warnings) != strip(&base.warnings) {
                    vio.push(v("warnings-depend-on-input-order", format!("{what}: base order {:?}, this order {:?}", base.warnings, o.warnings)));
                }
            }
            _ => {}
        }
    }
    vio
}

pub struct C15;

impl Property for C15 {
    fn id(&self) -> &'static str {
        "C15"
    }
    fn generate(&self, rng: &mut Rng, _index: u64, tier: &str) -> Case {
        generate(rng, tier)
    }
    fn evaluate(&self, exec: &Executor, case: &Case) -> Result<Outcome, String> {
        let mut o = Outcome::default();
        let mut obs = Vec::new();
        let mut digest = refcodec::util::Fnv::default();
        let mut any_threads = false;
        for s in &case.scenarios {
            let r = exec.run(s)?;
            let d = observable_digest(&r);
            any_threads |= d == 0;
            digest.update_u64(d);
            trace_facts(&r, &mut o);
            o.runs += 1;
            obs.push(observe(s, &r));
        }
        o.digest = if any_threads { 0 } else { digest.0 };
        o.violations = compare(case, &obs);
        let meta: Meta15 = serde_json::from_value(case.scenarios[0].meta.clone()).unwrap_or_default();
        *o.stats.entry(format!("template: {}", meta.template)).or_default() += 1;
        *o.stats.entry(format!("base verdict: {}", if obs[0].accepted { "accepted" } else { "rejected" })).or_default() += 1;
        for r in &case.relations {
            *o.stats.entry(format!("comparisons: {r}")).or_default() += 1;
        }
        // every C15 case compares at least two executions under different perturbations: all are non-trivial;
        // the signature is the template + the verdict + the shape of the comparison
        let mut f = refcodec::util::Fnv(o.signature);
        f.update(meta.template.as_bytes());
        for s in &case.scenarios {
            f.update(s.argv.join(" ").as_bytes());
        }
        o.signature = f.0;
        o.nontrivial = true;
        Ok(o)
    }
    fn extra_shrinks(&self, case: &Case) -> Vec<Case> {
        // keep the base and one variant at a time
        let mut out = Vec::new();
        if case.scenarios.len() > 2 {
            for i in 1..case.scenarios.len() {
                out.push(Case { scenarios: vec![case.scenarios[0].clone(), case.scenarios[i].clone()], relations: vec![case.relations[i - 1].clone()] });
            }
        }
        out
    }
    fn rule(&self) -> String {
        "One case = one multi-file program of the template catalogue (clean, warnings only, every error kind, the name-collision families incl. a definition vs. a nested module of another file, preprocessor symbols defined in one file and tested in another) passed as sources / explicit references / a reference directory, with 1..2 schedule-independent simulated generators, executed 5..9 times (quick) or up to 35 times (thorough: all 24 argument permutations of 4 files): the base execution, re-executions under other perturbation vectors (hash keys, heap shift, scheduler mode and seed, pipe capacities, short/EINTR I/O) which must be byte-identical, and reorderings (argument permutations, reversed creation order of the reference directory, a file moved between sources and references) which must keep the verdict, every file's encoded content and the multiset of warnings. evaluations = executions; distinct_nontrivial = distinct (template, argument vectors) cases (every case compares executions under differing perturbations).".into()
    }
    fn components(&self) -> Value {
        let mut c = crate::props::host_components();
        c["reference"] = json!(["differential oracle between executions", "refcodec request parser (per-file chunks)"]);
        c
    }
}
