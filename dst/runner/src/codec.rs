//! Orchestration of the codec engine (C11, C12): shards across worker processes, attributes crashes, minimises,
//! confirms by replay, runs the Miri leg, writes evidence.

use crate::evidence::{Evidence, Found};
use crate::ws::Ws;
use crate::Opts;
use serde_json::{json, Value};
use std::path::{Path, PathBuf};
use std::process::{Command, Stdio};
use std::time::Instant;

fn scratch_dir(tag: &str) -> PathBuf {
    let base = if Path::new("/dev/shm").is_dir() { PathBuf::from("/dev/shm") } else { std::env::temp_dir() };
    let d = base.join(format!("verif-{}-{}-{}", tag, std::process::id(), crate::now_nanos()));
    let _ = std::fs::create_dir_all(&d);
    d
}

fn run_codecsim(bin: &Path, args: &[&str]) -> Result<(i32, String), String> {
    let out = Command::new(bin).args(args).stdin(Stdio::null()).output().map_err(|e| format!("codecsim: {e}"))?;
    let code = match out.status.code() {
        Some(c) => c,
        None => {
            use std::os::unix::process::ExitStatusExt;
            -(out.status.signal().unwrap_or(0))
        }
    };
    Ok((code, String::from_utf8_lossy(&out.stdout).into_owned()))
}

pub struct Confirmed {
    pub class: String,
    pub detail: String,
    pub replay: PathBuf,
    pub subject: String,
}

/// Minimises a violating case, replays the result twice in fresh processes and stores the replay file.
fn confirm(bin: &Path, verif: &Path, prop: &str, case_file: &Path, scratch: &Path, idx: usize) -> Result<Option<Confirmed>, String> {
    let min = scratch.join(format!("min-{idx}.json"));
    let (code, _) = run_codecsim(bin, &["minimise", case_file.to_str().unwrap(), min.to_str().unwrap()])?;
    if code == 0 {
        // did not reproduce in a fresh process
        return Ok(None);
    }
    if code != 1 {
        return Err(format!("codecsim minimise exited with {code}"));
    }
    let doc: Value = serde_json::from_slice(&std::fs::read(&min).map_err(|e| e.to_string())?).map_err(|e| e.to_string())?;
    let class = doc["class"].as_str().unwrap_or("").to_owned();
    let mut classes = Vec::new();
    for _ in 0..2 {
        let (c, out) = run_codecsim(bin, &["replay", min.to_str().unwrap()])?;
        let cl = out.lines().find_map(|l| l.strip_prefix("CLASS ")).unwrap_or("").to_owned();
        classes.push((c, cl));
    }
    if classes.iter().any(|(c, cl)| *c != 1 || *cl != class) {
        return Err(format!("minimised case does not replay deterministically: {classes:?} vs {class}"));
    }
    let subject = doc["case"]["ty"].as_str().or(doc["case"]["target"].as_str()).unwrap_or("").to_owned();
    let dir = verif.join("replays");
    std::fs::create_dir_all(&dir).map_err(|e| e.to_string())?;
    let text = serde_json::to_string_pretty(&json!({
        "property": prop,
        "class": class,
        "detail": doc["detail"],
        "case": doc["case"],
        "how_to_replay": format!("./check {prop} --replay <this file>"),
    }))
    .unwrap();
    let name = format!("{prop}-{:016x}.json", refcodec::util::fnv1a(text.as_bytes()));
    let path = dir.join(name);
    std::fs::write(&path, text).map_err(|e| e.to_string())?;
    Ok(Some(Confirmed { class, detail: doc["detail"].as_str().unwrap_or("").to_owned(), replay: path, subject }))
}

fn merge_counts(into: &mut Value, from: &Value) {
    if let (Some(a), Some(b)) = (into.as_object_mut(), from.as_object()) {
        for (k, v) in b {
            let cur = a.get(k).and_then(|x| x.as_u64()).unwrap_or(0);
            a.insert(k.clone(), json!(cur + v.as_u64().unwrap_or(0)));
        }
    }
}

pub fn replay(ws: &Ws, prop: &str, file: &str) -> Result<i32, String> {
    ws.build(&["codecsim"])?;
    let (code, out) = run_codecsim(&ws.bin("codecsim"), &["replay", file])?;
    print!("{out}");
    if code == 1 {
        println!("VIOLATION property={prop} replay={file}");
    }
    Ok(if code == 0 || code == 1 { code } else { 2 })
}

pub fn run(ws: &Ws, prop: &str, opts: &Opts) -> Result<i32, String> {
    let engine = if prop == "C11" { "c11" } else { "c12" };
    let start = Instant::now();
    ws.build(&["codecsim"])?;
    let bin = ws.bin("codecsim");
    let scratch = scratch_dir(engine);
    let shards = opts.workers;
    let budget_ms = opts.budget_s.unwrap_or(if opts.tier == "quick" { 20 } else { 300 }) * 1000;

    let mut children = Vec::new();
    for i in 0..shards {
        let child = Command::new(&bin)
            .args(["worker", "--engine", engine, "--seed", &opts.seed.to_string(), "--shard", &i.to_string()])
            .args(["--shards", &shards.to_string(), "--tier", &opts.tier, "--budget-ms", &budget_ms.to_string()])
            .args(["--out", scratch.to_str().unwrap()])
            .stdin(Stdio::null())
            .stdout(Stdio::null())
            // to a file, not a pipe: nobody reads a pipe while the workers run
            .stderr(std::fs::File::create(scratch.join(format!("stderr-{i}.log"))).map(Stdio::from).unwrap_or_else(|_| Stdio::null()))
            .spawn()
            .map_err(|e| format!("cannot start codecsim: {e}"))?;
        children.push((i, child));
    }
    let mut crashed: Vec<(usize, String)> = Vec::new();
    for (i, child) in children {
        let mut child = child;
        let status = child.wait().map_err(|e| e.to_string())?;
        if !status.success() {
            let err = std::fs::read(scratch.join(format!("stderr-{i}.log"))).unwrap_or_default();
            crashed.push((i, format!("{:?}: {}", status, String::from_utf8_lossy(&err).chars().take(2000).collect::<String>())));
        }
    }

    // ---- collect summaries
    let mut totals = json!({});
    let mut by_ref_class = json!({});
    let mut by_fault = json!({});
    let mut by_type = json!({});
    let mut by_target = json!({});
    let mut samples: Vec<Value> = Vec::new();
    let mut max_alloc = 0u64;
    let mut max_calls = 0u64;
    let mut bitmap: Vec<u8> = Vec::new();
    for i in 0..shards {
        let p = scratch.join(format!("summary-{i}.json"));
        if let Ok(b) = std::fs::read(&p) {
            let s: Value = serde_json::from_slice(&b).map_err(|e| e.to_string())?;
            let mut nums = json!({});
            for k in ["numbers", "cases", "ops", "failed_ops", "reservation_writes", "alloc_faults_delivered", "aborted_on_injected_allocation_failure", "grows", "finite_done", "random_cases", "real_ok", "real_err", "violations"] {
                nums[k] = s[k].clone();
            }
            merge_counts(&mut totals, &nums);
            totals["finite_total"] = s["finite_total"].clone();
            merge_counts(&mut by_ref_class, &s["by_ref_class"]);
            merge_counts(&mut by_fault, &s["by_fault_kind"]);
            merge_counts(&mut by_type, &s["by_type"]);
            merge_counts(&mut by_target, &s["by_target"]);
            max_alloc = max_alloc.max(s["max_alloc_bytes"].as_u64().unwrap_or(0));
            max_calls = max_calls.max(s["max_calls"].as_u64().unwrap_or(0));
            if samples.len() < 6 {
                if let Some(a) = s["samples"].as_array() {
                    samples.extend(a.iter().rev().take(2).cloned());
                }
            }
        }
        if let Ok(b) = std::fs::read(scratch.join(format!("bitmap-{i}"))) {
            if bitmap.is_empty() {
                bitmap = b;
            } else {
                for (x, y) in bitmap.iter_mut().zip(b.iter()) {
                    *x |= *y;
                }
            }
        }
    }
    let distinct: u64 = bitmap.iter().map(|b| b.count_ones() as u64).sum();

    // ---- violations: recorded by the workers, plus crashes attributed through the progress record
    let mut case_files: Vec<PathBuf> = Vec::new();
    for (i, why) in &crashed {
        let prog = std::fs::read(scratch.join(format!("progress-{i}"))).unwrap_or_default();
        if prog.len() >= 24 && u64::from_le_bytes(prog[16..24].try_into().unwrap()) == 1 {
            let number = u64::from_le_bytes(prog[0..8].try_into().unwrap());
            let sub = u64::from_le_bytes(prog[8..16].try_into().unwrap());
            let (code, out) = run_codecsim(
                &bin,
                &["regen", "--engine", engine, "--seed", &opts.seed.to_string(), "--tier", &opts.tier, "--number", &number.to_string(), "--sub", &sub.to_string()],
            )?;
            if code != 0 {
                return Err(format!("worker {i} died ({why}) and its case {number}/{sub} cannot be regenerated"));
            }
            let f = scratch.join(format!("crash-{i}.json"));
            std::fs::write(&f, out).map_err(|e| e.to_string())?;
            case_files.push(f);
        } else {
            return Err(format!("worker {i} died before its first case: {why}"));
        }
    }
    if let Ok(rd) = std::fs::read_dir(&scratch) {
        let mut v: Vec<PathBuf> = rd.filter_map(|e| e.ok()).map(|e| e.path()).filter(|p| p.file_name().unwrap().to_string_lossy().starts_with("viol-")).collect();
        v.sort();
        case_files.extend(v);
    }
    if std::env::var_os("VERIF_DEBUG").is_some() {
        eprintln!("debug: crashed workers {:?}", crashed.iter().map(|(i, w)| (i, w.chars().take(200).collect::<String>())).collect::<Vec<_>>());
        eprintln!("debug: case files {:?}", case_files);
        for f in &case_files {
            eprintln!("debug: {} => {}", f.display(), String::from_utf8_lossy(&std::fs::read(f).unwrap_or_default()).lines().filter(|l| l.contains("\"class\"") || l.contains("\"detail\"") || l.contains("alloc_fail") || l.contains("\"ty\"")).collect::<Vec<_>>().join(" ").chars().take(600).collect::<String>());
        }
    }
    // one representative per (class, subject)
    let mut seen = std::collections::BTreeSet::new();
    let mut found: Vec<Found> = Vec::new();
    for (idx, f) in case_files.iter().enumerate() {
        let doc: Value = serde_json::from_slice(&std::fs::read(f).unwrap_or_default()).unwrap_or(json!({}));
        let case = if doc.get("case").is_some() { &doc["case"] } else { &doc };
        let subject = case["ty"].as_str().or(case["target"].as_str()).unwrap_or("").to_owned();
        let key = (doc["class"].as_str().unwrap_or("crash").to_owned(), subject);
        if !seen.insert(key) || found.len() >= 24 {
            continue;
        }
        match confirm(&bin, &ws.verif, prop, f, &scratch, idx)? {
            Some(c) => found.push(Found {
                property: prop.to_owned(),
                signature: format!("{}:{}:{}", engine, c.class, c.subject),
                what: c.detail,
                replay: c.replay.to_string_lossy().into_owned(),
            }),
            None => {
                if crashed.iter().any(|_| f.file_name().unwrap().to_string_lossy().starts_with("crash-")) {
                    return Err(format!("a worker died but its last case {} does not reproduce the crash", f.display()));
                }
                return Err(format!("violation {} did not reproduce in a fresh process", f.display()));
            }
        }
    }

    // ---- Miri leg: the same engine, interpreted, for the memory-safety half of the statement
    let miri_cases = opts.miri_cases.unwrap_or(if opts.tier == "quick" { 300 } else { 6000 });
    let mut miri = json!({"cases": 0, "status": "skipped"});
    if miri_cases > 0 {
        let m = miri_leg(ws, engine, opts, miri_cases)?;
        if let Some(v) = &m.1 {
            // store the violating case as a replay file
            let dir = ws.verif.join("replays");
            let _ = std::fs::create_dir_all(&dir);
            let text = serde_json::to_string_pretty(&json!({"property": prop, "class": v.0, "detail": v.1, "case": v.2, "engine": "miri"})).unwrap();
            let path = dir.join(format!("{prop}-miri-{:016x}.json", refcodec::util::fnv1a(text.as_bytes())));
            let _ = std::fs::write(&path, text);
            let subject = v.2["ty"].as_str().or(v.2["target"].as_str()).unwrap_or("").to_owned();
            found.push(Found { property: prop.to_owned(), signature: format!("{engine}:miri:{}:{}", v.0, subject), what: v.1.clone(), replay: path.to_string_lossy().into_owned() });
        }
        miri = m.0;
    }

    let known = crate::findings::load(&ws.verif)?;
    let unknown = crate::findings::report(prop, &found, &known);

    let wall = start.elapsed().as_secs_f64();
    let evaluations = totals["cases"].as_u64().unwrap_or(0);
    let rule = if engine == "c12" {
        "Histories of buffer operations: (a) bounded-exhaustive — every sequence of length 0..5 over {write byte, write k, reserve k, write k into the 1st/2nd reservation} (k in 0..3) on a fixed-slice and a growable target of capacity 0..4, and over {peek/read byte, peek/read N, peek/read slice k, read into k} on an input source of 0..4 bytes; (b) seeded random histories (length <= 200, sizes <= 4 KiB, absurd sizes, armed allocation failure) until the time budget ends. Each history runs on the real target in lock-step with an append-only-log model; window and canaries are compared after every operation. distinct_nontrivial = number of distinct (operation kind, size, result) sequences (64 Mi-bit bitmap of their hashes, so a lower bound) among histories in which at least one operation was refused or a reservation was written into."
    } else {
        "Byte strings presented to the real Decoder for 36 decodable types: (a) exhaustive — every byte string of length 0..2 (quick: 1 in 61 of length 3; thorough: all of length 3) for every type; (b) every truncation and single-byte corruption (8 bit flips + 8 replacement bytes per position) of sampled valid encodings; (c) seeded random channel faults (truncate, bit flip, set byte, insert, delete, duplicate dictionary key, inflated length announcement up to 2^62-1, splice, illegal bool, invalid UTF-8, random bytes, trailing bytes, failed allocation) on valid encodings until the time budget ends. Oracle = strict reference decoder + allocator accounting + call counting. distinct_nontrivial = distinct (type, bytes, verdict) among cases whose input the reference rejects or during which an allocation fault was delivered (bitmap of hashes, lower bound)."
    };
    let coverage = json!({
        "evaluations": evaluations,
        "distinct_nontrivial": distinct,
        "rule": rule,
        "samples": samples,
        "exhaustive": false,
        "finite_part": {"cases_planned": totals["finite_total"], "case_numbers_completed": totals["finite_done"], "complete": totals["finite_total"] == totals["finite_done"]},
        "random_cases": totals["random_cases"],
        "operations_executed": totals["ops"],
        "operations_refused": totals["failed_ops"],
        "reservation_writes": totals["reservation_writes"],
        "faults_fired": {"allocation_failure_delivered": totals["alloc_faults_delivered"], "aborted_on_injected_allocation_failure_not_judged": totals["aborted_on_injected_allocation_failure"], "channel_faults_by_kind": by_fault, "reference_verdict_by_class": by_ref_class},
        "by_type": by_type,
        "by_target": by_target,
        "decoder_accepted": totals["real_ok"],
        "decoder_rejected": totals["real_err"],
        "max_allocator_bytes_for_one_decode": max_alloc,
        "max_input_source_calls_for_one_decode": max_calls,
        "runs_per_hour": if wall > 0.0 { (evaluations as f64 / wall * 3600.0) as u64 } else { 0 },
        "simulated_time": "none: the codec has no clock; the unit of progress is one buffer operation / one decode",
        "workers": shards,
        "miri": miri,
        "components": {
            "real": ["slice-codec (Decoder, Encoder-free decode path, SliceInputSource, SliceOutputTarget, VecOutputTarget, Reservation, Error rendering)", "slicec/src/definition_types.rs reply types (GeneratedFile, Diagnostic, DiagnosticLevel)"],
            "stub": ["global allocator (counting / failing / red-zone seam)", "counting InputSource wrapper that delegates every call to the real SliceInputSource"],
            "reference": ["refcodec strict decoder", "append-only log model"]
        },
        "violations_found": found.len(),
        "violations_not_in_known_findings": unknown,
    });
    Evidence {
        property_id: prop.to_owned(),
        tier: opts.tier.clone(),
        seed: opts.seed,
        coverage,
        assumptions: vec![
            "rustc, std, the refcodec reference decoder and the log model are trusted".into(),
            "overflow checks and debug assertions are ON in the optimised build that is explored".into(),
            "native runs look at target memory through a raw pointer between operations; the Miri leg re-runs histories under the interpreter for out-of-bounds / uninitialised accesses".into(),
            "sampling: a clean batch is evidence, not proof (the small-scope sweeps are complete)".into(),
        ],
        wall_s: wall,
        violations: unknown,
    }
    .write(&ws.verif)?;
    let _ = std::fs::remove_dir_all(&scratch);
    println!(
        "{prop} [{}] seed={} cases={} distinct_nontrivial={} violations={} known={} wall={:.1}s",
        opts.tier,
        opts.seed,
        evaluations,
        distinct,
        unknown,
        found.len() as u64 - unknown,
        wall
    );
    Ok(if unknown > 0 { 1 } else { 0 })
}

type MiriViolation = (String, String, Value);

/// Builds codecsim for the interpreter once (setup), so that the first check run does not pay for it.
pub fn warm_miri(ws: &Ws) -> Result<(), String> {
    let out = Command::new("cargo")
        .args(["+nightly", "miri", "run", "--offline", "--release", "-q", "-p", "codecsim", "--", "miri", "--engine", "c12", "--seed", "1", "--cases", "1"])
        .current_dir(&ws.dir)
        .env("CARGO_NET_OFFLINE", "true")
        .env("CARGO_TARGET_DIR", ws.target_dir().join("miri-target"))
        .env("MIRIFLAGS", "-Zmiri-disable-isolation")
        .stdin(Stdio::null())
        .output()
        .map_err(|e| format!("cargo miri: {e}"))?;
    if !out.status.success() || !String::from_utf8_lossy(&out.stdout).contains("MIRI-OK") {
        return Err(format!("the Miri build of codecsim failed:\n{}", String::from_utf8_lossy(&out.stderr).lines().rev().take(30).collect::<Vec<_>>().into_iter().rev().collect::<Vec<_>>().join("\n")));
    }
    Ok(())
}

fn miri_leg(ws: &Ws, engine: &str, opts: &Opts, cases: u64) -> Result<(Value, Option<MiriViolation>), String> {
    let start = Instant::now();
    // Several interpreter processes in parallel, each with its own slice of the case numbers.
    let procs = opts.workers.min(16).max(1) as u64;
    let per = (cases + procs - 1) / procs;
    let mut children = Vec::new();
    for p in 0..procs {
        let mut cmd = Command::new("cargo");
        cmd.args(["+nightly", "miri", "run", "--offline", "--release", "-q", "-p", "codecsim", "--"])
            .args(["miri", "--engine", engine, "--seed", &opts.seed.to_string(), "--cases", &per.to_string(), "--offset", &(p * per).to_string()])
            .current_dir(&ws.dir)
            .env("CARGO_NET_OFFLINE", "true")
            .env("CARGO_TARGET_DIR", ws.target_dir().join("miri-target"))
            .env("MIRIFLAGS", "-Zmiri-disable-isolation")
            .stdin(Stdio::null())
            .stdout(Stdio::piped())
            .stderr(Stdio::piped());
        if p == 0 {
            // build once before fanning out, so the others find everything compiled
            let out = cmd.output().map_err(|e| format!("cargo miri: {e}"))?;
            children.push(Ok(out));
        } else {
            children.push(Err(cmd.spawn().map_err(|e| format!("cargo miri: {e}"))?));
        }
    }
    let mut total = 0u64;
    let mut distinct = 0u64;
    let mut ops = 0u64;
    let mut violation = None;
    for c in children {
        let out = match c {
            Ok(o) => o,
            Err(child) => child.wait_with_output().map_err(|e| e.to_string())?,
        };
        let stdout = String::from_utf8_lossy(&out.stdout).into_owned();
        let stderr = String::from_utf8_lossy(&out.stderr).into_owned();
        if let Some(l) = stdout.lines().find(|l| l.starts_with("MIRI-OK")) {
            for kv in l.split_whitespace() {
                if let Some(v) = kv.strip_prefix("cases=") {
                    total += v.parse::<u64>().unwrap_or(0);
                }
                if let Some(v) = kv.strip_prefix("distinct=") {
                    distinct += v.parse::<u64>().unwrap_or(0);
                }
                if let Some(v) = kv.strip_prefix("ops=") {
                    ops += v.parse::<u64>().unwrap_or(0);
                }
            }
        } else if let Some(l) = stdout.lines().find(|l| l.starts_with("MIRI-VIOLATION")) {
            let class = l.split("class=").nth(1).and_then(|s| s.split(" detail=").next()).unwrap_or("").to_owned();
            let detail = l.split(" detail=").nth(1).and_then(|s| s.split(" case=").next()).unwrap_or("").to_owned();
            let case: Value = l.split(" case=").nth(1).and_then(|s| serde_json::from_str(s).ok()).unwrap_or(json!({}));
            violation.get_or_insert((class, detail, case));
        } else if stderr.contains("Undefined Behavior") || stderr.contains("error: unsupported operation") && stderr.contains("slice-codec") {
            // the interpreter stopped at undefined behaviour: the last case printed on stderr is not available, so
            // report the UB text itself
            let first = stderr.lines().find(|l| l.contains("Undefined Behavior")).unwrap_or("undefined behaviour").to_owned();
            let site = stderr.lines().find(|l| l.trim_start().starts_with("-->")).unwrap_or("").trim().to_owned();
            violation.get_or_insert((format!("undefined-behaviour {site}"), first, json!({"stderr": stderr.lines().take(40).collect::<Vec<_>>()})));
        } else {
            return Err(format!("the Miri leg failed to run:\n{}\n{}", stdout, stderr.lines().rev().take(30).collect::<Vec<_>>().into_iter().rev().collect::<Vec<_>>().join("\n")));
        }
    }
    Ok((json!({"status": if violation.is_some() {"violation"} else {"clean"}, "cases": total, "operations": ops, "distinct_cases": distinct, "processes": procs, "wall_s": start.elapsed().as_secs_f64().round()}), violation))
}
