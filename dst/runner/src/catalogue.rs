//! Workload: a hand-written catalogue of small multi-file Slice programs with seeded knobs. Every template carries
//! its class *by construction* (clean / warnings only / one kind of error); `dst selftest` checks the labels against
//! the real binary. This is workload, not a grammar model: judging the compiler's verdict on arbitrary programs is
//! C04's business.

use refcodec::util::Rng;

#[derive(Clone, Copy, Debug, PartialEq, Eq)]
pub enum Class {
    Clean,
    /// no errors, exactly this many warnings when no lint is allowed
    WarnOnly(usize),
    /// at least one error; the codes that must all appear
    Error,
}

#[derive(Clone, Debug)]
pub struct SrcFile {
    pub name: String,
    pub text: String,
}

#[derive(Clone, Debug)]
pub struct Program {
    pub template: &'static str,
    pub files: Vec<SrcFile>,
    pub class: Class,
    /// error codes that must be reported (Error class)
    pub codes: Vec<&'static str>,
    /// lint names of the warnings (WarnOnly), one per warning
    pub lints: Vec<&'static str>,
}

fn f(name: &str, text: String) -> SrcFile {
    SrcFile { name: name.to_owned(), text }
}

/// Filler definitions: they inflate the request without changing the class.
pub fn filler(rng: &mut Rng, module: &str, n: usize) -> String {
    let mut s = String::new();
    for i in 0..n {
        let k = rng.below(5);
        match k {
            0 => s.push_str(&format!("/// Filler number {i} of module {module}.\nstruct Fill{i} {{\n    a: int32\n    b: string\n    tag(1) c: Sequence<float64>?\n}}\n\n")),
            1 => s.push_str(&format!("enum FillE{i} : int16 {{ A{i} = -3, B{i}, C{i} = 1000 }}\n\n")),
            2 => s.push_str(&format!("interface FillI{i} {{\n    /// Does thing {i}.\n    /// @param x: the input\n    op{i}(x: varuint62, y: Dictionary<string, bool>) -> Sequence<string>\n}}\n\n")),
            3 => s.push_str(&format!("typealias FillT{i} = Dictionary<int32, Sequence<string?>>\n\n")),
            _ => s.push_str(&format!("compact struct FillC{i} {{ p: float32, q: uint8 }}\n\n")),
        }
    }
    s
}

fn pick_fill(rng: &mut Rng) -> usize {
    match rng.below(10) {
        0..=4 => 0,
        5..=7 => rng.usize_below(6),
        8 => rng.usize_below(40),
        _ => 100 + rng.usize_below(500),
    }
}

pub const TEMPLATES: &[&str] = &[
    "clean-basic",
    "clean-cross-file",
    "clean-module-vs-definition",
    "clean-member-vs-definition",
    "clean-same-names",
    "clean-nested-modules",
    "clean-rich",
    "clean-preprocessor",
    "clean-preprocessor-flip",
    "clean-single",
    "clean-unless-defined",
    "clean-inheritance-cross-file",
    "clean-alias-chain",
    "clean-alias-attributes",
    "clean-forward-refs",
    "warn-deprecated",
    "warn-doc",
    "warn-spread",
    "warn-deprecated-cross-file",
    "warn-doc-cross-file",
    "warn-wide-text",
    "warn-twins",
    "warn-many-files",
    "err-syntax",
    "err-attribute",
    "err-unresolved",
    "err-many-unresolved",
    "err-cycle",
    "err-cycle-cross-file",
    "err-alias-cycle",
    "err-unresolved-cross-file",
    "err-redefinition",
    "err-redefinition-cross-file",
    "err-rule",
    "err-wide-text",
    "err-syntax-after-doc-lint",
    "err-file-attribute-without-module",
    "err-base-not-an-interface",
    "err-underlying-not-a-primitive",
    "err-cycle-interface-inheritance",
];

/// The templates that are drawn at random (everything except the recorded findings).
pub fn drawable() -> Vec<&'static str> {
    TEMPLATES.iter().copied().filter(|t| !t.starts_with("abort-")).collect()
}

pub fn by_class(want_clean: bool, want_warn: bool, want_err: bool) -> Vec<&'static str> {
    TEMPLATES
        .iter()
        .copied()
        .filter(|t| (want_clean && t.starts_with("clean")) || (want_warn && t.starts_with("warn")) || (want_err && t.starts_with("err")))
        .collect()
}

/// Instantiates a template. `u` is a short unique suffix that keeps module names of different programs apart.
pub fn instantiate(template: &'static str, rng: &mut Rng) -> Program {
    let u = format!("{}", (b'A' + rng.below(26) as u8) as char);
    let fill = pick_fill(rng);
    let mut p = Program { template, files: vec![], class: Class::Clean, codes: vec![], lints: vec![] };
    match template {
        "clean-single" => {
            p.files.push(f("solo.slice", format!("module Solo{u}\n\nstruct One {{ a: int32 }}\n\n{}", filler(rng, "Solo", fill))));
        }
        "clean-basic" => {
            p.files.push(f(
                "shapes.slice",
                format!(
                    "module Shapes{u}\n\n/// A point in the plane. See {{@link Shape}}.\ncompact struct Point {{ x: int32, y: int32 }}\n\nenum Color : uint8 {{ Red, Green = 5, Blue }}\n\nstruct Shape {{\n    origin: Point\n    color: Color\n    tag(1) name: string?\n    tag(2) weights: Sequence<float64>?\n}}\n\n{}",
                    filler(rng, "Shapes", fill)
                ),
            ));
            p.files.push(f("other.slice", format!("module Other{u}\n\nstruct Thing {{ id: uint64, label: string }}\n")));
        }
        "clean-cross-file" => {
            p.files.push(f(
                "shapes.slice",
                format!("module Shapes{u}\n\ncompact struct Point {{ x: int32, y: int32 }}\nenum Color : uint8 {{ Red, Green = 5, Blue }}\nstruct Shape {{ origin: Point, color: Color, tag(1) name: string? }}\n\n{}", filler(rng, "Shapes", fill)),
            ));
            p.files.push(f(
                "drawing.slice",
                format!(
                    "module Drawing{u}\n\ntypealias Palette = Dictionary<string, Shapes{u}::Color>\n\ncustom Handle\n\nunchecked enum Event {{\n    Moved(to: Shapes{u}::Point)\n    Recolored(c: Shapes{u}::Color, tag(3) why: string?)\n    Closed\n}}\n\n/// Draws things.\n/// @see Shapes{u}::Shape\ninterface Canvas {{\n    /// Draws a shape.\n    /// @param s: the shape\n    /// @returns: whether it worked\n    idempotent draw(s: Shapes{u}::Shape, tag(1) p: Palette?) -> bool\n    clear()\n    upload(data: stream uint8) -> Result<int32, string>\n    stats() -> (count: varint32, area: float64)\n}}\n\ninterface Layered : Canvas {{\n    layer(h: Handle) -> Sequence<Shapes{u}::Shape?>\n}}\n"
                ),
            ));
            p.files.push(f("users.slice", format!("module Users{u}\n\nstruct Owner {{ canvas: Drawing{u}::Palette, where: Shapes{u}::Point }}\n")));
        }
        "clean-same-names" => {
            p.files.push(f("a.slice", format!("module Left{u}\n\nstruct Item {{ a: int32 }}\nenum Kind {{ X, Y }}\nstruct UsesLeft {{ i: Item, k: Kind }}\n\n{}", filler(rng, "Left", fill))));
            p.files.push(f("b.slice", format!("module Right{u}\n\nstruct Item {{ b: string }}\nenum Kind {{ P, Q, R }}\nstruct UsesRight {{ i: Item, k: Kind }}\n")));
            p.files.push(f("c.slice", format!("module Both{u}\n\nstruct Pair {{ l: Left{u}::Item, r: Right{u}::Item, lk: Left{u}::Kind, rk: Right{u}::Kind }}\n")));
        }
        "clean-nested-modules" => {
            p.files.push(f("outer.slice", format!("module Org{u}\n\nstruct Root {{ id: int32 }}\n\n{}", filler(rng, "Org", fill))));
            p.files.push(f("inner1.slice", format!("module Org{u}::Dept\n\nstruct Leaf {{ r: Root, o: Org{u}::Root }}\n")));
            p.files.push(f("inner2.slice", format!("module Org{u}::Dept::Team\n\nstruct Twig {{ l: Leaf, r: Root, x: Org{u}::Dept::Leaf }}\n")));
            p.files.push(f("inner3.slice", format!("module Org{u}::Lab\n\nstruct Bench {{ t: Dept::Team::Twig? }}\n")));
        }
        "clean-rich" => {
            p.files.push(f(
                "rich.slice",
                format!(
                    "[[allow(BrokenDocLink, Deprecated, MalformedDocComment)]]\nmodule Rich{u}\n\n/// Overview line one.\n/// Overview line two with {{@link Gone}} suppressed.\n[cs::readonly]\nstruct Doc {{\n    /// A field.\n    a: int32\n    tag(7) b: Sequence<Dictionary<string, Sequence<int8>>>?\n}}\n\nenum Big : varint62 {{ Lo = -100, Hi = 2305843009213693951 }}\n\nenum WithFields {{ A(x: int32), B(tag(1) y: string?), C }}\n\ninterface Svc {{\n    a(x: Result<string, Big>) -> Result<Sequence<Doc>, WithFields>\n    idempotent b(tag(1) o: Doc?, tag(2) p: bool?) -> (r1: int32, r2: stream Doc)\n}}\n\n{}",
                    filler(rng, "Rich", fill)
                ),
            ));
            p.files.push(f("rich2.slice", format!("module Rich{u}::More\n\ntypealias Docs = Sequence<Rich{u}::Doc>\nstruct Holder {{ d: Docs, b: Rich{u}::Big }}\n")));
        }
        "clean-preprocessor" => {
            // X is defined in one file only: definitions guarded by X in the other file must never appear
            p.files.push(f("pp1.slice", format!("#define X\nmodule Pp{u}\n\n#if X\nstruct P1 {{ a: int32 }}\n#endif\n\n{}", filler(rng, "Pp", fill))));
            p.files.push(f("pp2.slice", format!("module Pp{u}\n\n#if X\nstruct OnlyIfX {{ b: bool }}\n#endif\nstruct P2 {{ p: P1 }}\n#if !X\nstruct UnlessX {{ c: bool }}\n#endif\n")));
        }
        "clean-preprocessor-flip" => {
            // if X leaked from the first file into the second, Dup would be defined twice
            p.files.push(f("ppa.slice", format!("module Flip{u}\n#define X\nstruct FA {{ a: int32 }}\n#undef Y\n")));
            p.files.push(f("ppb.slice", format!("#define Y\nmodule Flip{u}\n\n#if X\nstruct Dup {{ early: bool }}\n#endif\nstruct Dup {{ late: bool }}\n#if Y\nstruct NeedsY {{ d: Dup }}\n#endif\n")));
            p.files.push(f("ppc.slice", format!("module Flip{u}\n#if Y\nstruct Dup {{ leaked: bool }}\n#endif\nstruct FC {{ n: NeedsY }}\n")));
        }
        "warn-deprecated" => {
            p.files.push(f(
                "legacy.slice",
                format!("module Legacy{u}\n\n[deprecated(\"use New\")]\nstruct Old {{ a: int32 }}\n\nstruct New {{ a: int32 }}\n\nstruct U1 {{ o: Old }}\nstruct U2 {{ o: Old, n: New }}\n\ninterface I {{\n    use(o: Old)\n}}\n\n{}", filler(rng, "Legacy", fill)),
            ));
            p.files.push(f("modern.slice", format!("module Modern{u}\n\nstruct M {{ n: Legacy{u}::New }}\n")));
            p.class = Class::WarnOnly(3);
            p.lints = vec!["Deprecated", "Deprecated", "Deprecated"];
        }
        "warn-doc" => {
            p.files.push(f(
                "docs.slice",
                format!("module Docs{u}\n\n/// {{@link Nope}}\n/// @returns: nothing\nstruct Doc {{ x: bool }}\n\ninterface I {{\n    /// @param missing: no such parameter\n    op(a: int32)\n}}\n\n{}", filler(rng, "Docs", fill)),
            ));
            p.class = Class::WarnOnly(3);
            p.lints = vec!["BrokenDocLink", "IncorrectDocComment", "IncorrectDocComment"];
        }
        "warn-wide-text" => {
            // text of more than one byte per character in front of the reported place, on the same line: columns
            // count characters, not bytes
            let lead = *rng.pick(&["这个结构已经被弃用了，请改用", "Voir plutôt l'élément dépréciée à côté →", "😀😀😀 см. также", "ｆｕｌｌｗｉｄｔｈ　ｔｅｘｔ"]);
            p.files.push(f(
                "wide.slice",
                format!("module Wide{u}\n\n/// {lead} {{@link Nope}}。\nstruct Doc {{ x: bool }}\n\n[deprecated(\"{lead}\")] struct Old {{}}\n\nstruct User {{\n    /* {lead} */ a: Old\n}}\n\n{}", filler(rng, "Wide", fill)),
            ));
            p.class = Class::WarnOnly(2);
            p.lints = vec!["BrokenDocLink", "Deprecated"];
        }
        "warn-twins" => {
            // two files of the same shape: the same lint with the same text at the same row and column in each
            let kind = rng.below(3);
            for (name, module) in [("twin_a.slice", format!("Ta{u}")), ("twin_b.slice", format!("Tb{u}"))] {
                let body = match kind {
                    0 => "/// See {@link Invoice} for details.\nstruct Order { id: int32 }\n".to_owned(),
                    1 => "[deprecated] struct Old {}\nstruct User { a: Old }\n".to_owned(),
                    _ => "interface I {\n    /// @param nope: no such parameter\n    op(a: int32)\n}\n".to_owned(),
                };
                p.files.push(f(name, format!("module {module}\n\n{body}")));
            }
            p.class = Class::WarnOnly(2);
            p.lints = match kind {
                0 => vec!["BrokenDocLink", "BrokenDocLink"],
                1 => vec!["Deprecated", "Deprecated"],
                _ => vec!["IncorrectDocComment", "IncorrectDocComment"],
            };
        }
        "warn-many-files" => {
            // more than twenty files, each with a warning and a reference to its predecessor: sorting and hashing
            // code behaves differently beyond small sizes (insertion sort below 21 elements, table growth, ...)
            let n = 21 + rng.usize_below(12);
            for i in 0..n {
                let prev = if i == 0 { String::new() } else { format!("    prev: Many{u}::F{}::S{}?\n", i - 1, i - 1) };
                p.files.push(f(&format!("m{i:02}.slice"), format!("module Many{u}::F{i}\n\n/// See {{@link Nope{i}}}.\nstruct S{i} {{\n    id: int32\n{prev}}}\n")));
            }
            p.class = Class::WarnOnly(n);
            p.lints = vec!["BrokenDocLink"; n];
        }
        "warn-spread" => {
            // four warnings of the same kind spread over three files: an iteration-order dependence has something
            // to reorder
            p.files.push(f("w1.slice", format!("module Spread{u}\n\n[deprecated]\nstruct Old1 {{ a: int32 }}\n[deprecated]\nstruct Old2 {{ a: int32 }}\nstruct Use1 {{ a: Old1, b: Old2 }}\n")));
            p.files.push(f("w2.slice", format!("module Spread{u}::Two\n\nstruct Use2 {{ a: Spread{u}::Old2 }}\n/// {{@link Missing1}}\nstruct D2 {{}}\n")));
            p.files.push(f("w3.slice", format!("module Spread{u}::Three\n\nstruct Use3 {{ a: Spread{u}::Old1 }}\n/// {{@link Missing2}}\nstruct D3 {{}}\n\n{}", filler(rng, "Three", fill))));
            p.class = Class::WarnOnly(6);
            p.lints = vec!["Deprecated", "Deprecated", "Deprecated", "Deprecated", "BrokenDocLink", "BrokenDocLink"];
        }
        "clean-unless-defined" => {
            // clean as it stands; with `-D BREAKIT` on the command line a block with an unresolved type is switched on
            p.files.push(f("cond.slice", format!("module Cond{u}\n\nstruct Always {{ a: int32 }}\n#if BREAKIT\nstruct Broken {{ b: NoSuchType }}\n#endif\n#if !BREAKIT && SOMESYMBOL\nstruct OnlyWithSome {{ c: Always }}\n#endif\n")));
            p.files.push(f("cond2.slice", format!("module Cond{u}::More\n\nstruct Uses {{ a: Cond{u}::Always }}\n\n{}", filler(rng, "More", fill))));
        }
        "clean-inheritance-cross-file" => {
            p.files.push(f("base.slice", format!("module Svc{u}\n\ninterface Base {{\n    ping()\n    idempotent name() -> string\n}}\n")));
            p.files.push(f("mid.slice", format!("module Svc{u}\n\ninterface Mid : Base {{\n    mid(x: int32) -> int32\n}}\ninterface Side : Base {{\n    side()\n}}\n")));
            p.files.push(f("leaf.slice", format!("module Svc{u}::Impl\n\ninterface Leaf : Svc{u}::Mid, Svc{u}::Side {{\n    leaf(tag(1) o: string?)\n}}\n\n{}", filler(rng, "Impl", fill))));
        }
        "clean-alias-chain" => {
            // aliases of aliases across files, resolved whatever the parse order
            p.files.push(f("t1.slice", format!("module Al{u}\n\ntypealias A1 = A2\nstruct Uses {{ a: A1, b: Sequence<A3> }}\n")));
            p.files.push(f("t2.slice", format!("module Al{u}\n\ntypealias A2 = A3\ntypealias A3 = Dictionary<string, Target>\n")));
            p.files.push(f("t3.slice", format!("module Al{u}\n\nstruct Target {{ v: varuint62 }}\n[cs::type(\"X\")] typealias A4 = A1\n\n{}", filler(rng, "Al", fill))));
        }
        "clean-alias-attributes" => {
            // type attributes written on the underlying type of an alias travel with the alias, whoever resolves
            // it first: uses of the outer and of the inner alias sit in files on both sides of the definitions
            p.files.push(f("early.slice", format!("module At{u}::Early\n\nstruct E {{ o: At{u}::Outer, i: At{u}::Inner, m: At{u}::Mid }}\n")));
            p.files.push(f("defs.slice", format!("module At{u}\n\ntypealias Inner = Sequence<int32>\ntypealias Mid = [cs::type(\"Mid\")] Inner\ntypealias Outer = [cs::type(\"Outer\")] Mid\nstruct D {{ i: Inner, o: Outer, m: Mid }}\n")));
            p.files.push(f("late.slice", format!("module At{u}::Late\n\nstruct L {{ i: At{u}::Inner, o: Sequence<At{u}::Outer>, m: [cs::type(\"Own\")] At{u}::Mid }}\n\n{}", filler(rng, "Late", fill))));
        }
        "clean-forward-refs" => {
            // six files, each referring to the next: whichever order they come in, everything resolves
            for i in 0..6 {
                let next = if i < 5 { format!("n: Fw{u}::M{}::S{}?", i + 1, i + 1) } else { "n: int32".to_owned() };
                p.files.push(f(&format!("fw{i}.slice"), format!("module Fw{u}::M{i}\n\nstruct S{i} {{ {next}, tag(1) label: string? }}\n")));
            }
        }
        "warn-doc-cross-file" => {
            // doc links into other files: valid ones resolve in any order, broken ones warn in any order
            p.files.push(f("api.slice", format!("module Dc{u}\n\n/// See {{@link Model::Item}} and {{@link Model::Missing}}.\n/// @see Model::Item\ninterface Api {{\n    /// @param i: the {{@link Model::Item}}\n    /// @throws: never\n    put(i: Model::Item)\n}}\n")));
            p.files.push(f("model.slice", format!("module Dc{u}::Model\n\n/// Used by {{@link Dc{u}::Api}} and {{@link Dc{u}::Nothing}}.\nstruct Item {{ id: int32 }}\n\n{}", filler(rng, "Model", fill))));
            p.class = Class::WarnOnly(3);
            p.lints = vec!["BrokenDocLink", "BrokenDocLink", "MalformedDocComment"];
        }
        "err-alias-cycle" => {
            p.files.push(f("a1.slice", format!("module Ac{u}\n\ntypealias X = Y\nstruct UsesX {{ x: X }}\n")));
            p.files.push(f("a2.slice", format!("module Ac{u}\n\ntypealias Y = Z\n")));
            p.files.push(f("a3.slice", format!("module Ac{u}\n\ntypealias Z = X\n")));
            p.class = Class::Error;
            p.codes = vec![];
        }
        "err-unresolved-cross-file" => {
            // every file is fine on its own; one reference only resolves if another module were in scope
            p.files.push(f("u1.slice", format!("module Un{u}::A\n\nstruct InA {{ v: int32 }}\n")));
            p.files.push(f("u2.slice", format!("module Un{u}::B\n\nstruct InB {{ a: InA }}\n")));
            p.files.push(f("u3.slice", format!("module Un{u}\n\nstruct Top {{ a: A::InA, b: B::InB }}\n")));
            p.class = Class::Error;
            p.codes = vec!["E033"];
        }
        "warn-deprecated-cross-file" => {
            // one deprecated entity used from several files, one of which allows the lint for itself
            p.files.push(f("shapes.slice", format!("module Geo{u}\n\n[deprecated(\"use Point3\")]\nstruct Point2 {{ x: int32, y: int32 }}\nstruct Point3 {{ x: int32, y: int32, z: int32 }}\nstruct Box2 {{ a: Point2, b: Point2 }}\n")));
            p.files.push(f("paths.slice", format!("module Geo{u}::Paths\n\nstruct Path {{ points: Sequence<Geo{u}::Point2> }}\n\n{}", filler(rng, "Paths", fill))));
            p.files.push(f("compat.slice", format!("[[allow(Deprecated)]]\nmodule Geo{u}::Compat\n\nstruct Legacy {{ p: Geo{u}::Point2, q: Geo{u}::Point2 }}\n")));
            p.files.push(f("users.slice", format!("module Geo{u}::Users\n\ninterface Plotter {{\n    plot(p: Geo{u}::Point2) -> Geo{u}::Point3\n}}\n")));
            p.class = Class::WarnOnly(4);
            p.lints = vec!["Deprecated", "Deprecated", "Deprecated", "Deprecated"];
        }
        "err-cycle-cross-file" => {
            // a containment cycle whose members live in different files, plus a user outside the cycle in a third
            p.files.push(f("order.slice", format!("module Shop{u}\n\nstruct Order {{ id: int32, who: Customer }}\nstruct Receipt {{ o: Order }}\n")));
            p.files.push(f("customer.slice", format!("module Shop{u}\n\nstruct Customer {{ name: string, home: Address }}\n")));
            p.files.push(f("address.slice", format!("module Shop{u}\n\nstruct Address {{ street: string, owner: Customer }}\n\n{}", filler(rng, "Shop", fill))));
            p.class = Class::Error;
            p.codes = vec!["E032"];
        }
        "err-syntax" => {
            p.files.push(f("good.slice", format!("module Good{u}\nstruct G {{ a: int32 }}\n{}", filler(rng, "Good", fill))));
            p.files.push(f("bad.slice", format!("module Bad{u}\nstruct {{ a: int32 }}\n")));
            p.class = Class::Error;
            p.codes = vec!["E002"];
        }
        "err-attribute" => {
            p.files.push(f("good.slice", format!("module Good{u}\nstruct G {{ a: int32 }}\n")));
            p.files.push(f("bad.slice", format!("module Bad{u}\n[foo]\nstruct S {{ a: int32 }}\n{}", filler(rng, "Bad", fill))));
            p.class = Class::Error;
            p.codes = vec!["E024"];
        }
        "clean-member-vs-definition" => {
            // a member of a definition and a definition inside the module of the same name share a scoped name
            // (field B of struct Kn::A / struct B of module Kn::A): uses of the name find the definition, in every
            // file order (the pinned tree let the last file win: fixed)
            match rng.below(4) {
                3 => {
                    // two MEMBERS of different kinds under the same name (a parameter and a field)
                    p.files.push(f("m1.slice", format!("module Km{u}\ninterface A {{ B(C: int32) }}\n")));
                    p.files.push(f("m2.slice", format!("module Km{u}::A\nstruct B {{ C: int32 }}\n")));
                    p.files.push(f("m3.slice", format!("module Kz{u}\n/// See {{@link Km{u}::A::B::C}}.\nstruct User {{}}\n")));
                }
                0 => {
                    p.files.push(f("m1.slice", format!("module Km{u}\nstruct A {{ B: int32 }}\n")));
                    p.files.push(f("m2.slice", format!("module Km{u}::A\nstruct B {{ x: int32 }}\n")));
                    p.files.push(f("m3.slice", format!("module Km{u}::A\nstruct C {{ b: B }}\n")));
                }
                1 => {
                    p.files.push(f("m1.slice", format!("module Km{u}\nenum A {{ B, D }}\n")));
                    p.files.push(f("m2.slice", format!("module Km{u}::A\ncompact struct B {{ x: int32 }}\nstruct C {{ b: Sequence<B> }}\n")));
                }
                _ => {
                    p.files.push(f("m1.slice", format!("module Km{u}\n\n/// See {{@link I::op::p}}.\ninterface I {{\n    op(p: bool)\n}}\n")));
                    p.files.push(f("m2.slice", format!("module Km{u}::I::op\nstruct p {{ x: int32 }}\nstruct Q {{ a: p }}\n")));
                }
            }
        }
        "err-syntax-after-doc-lint" => {
            // a lint on a field of an enumerator / a parameter, then a syntax error later in the same container (the
            // pinned tree kept the half-built children in the AST and followed their dangling parent pointer: fixed)
            let text = if rng.chance(1, 2) {
                format!("module Sx{u}\nenum E {{\n    A(\n        /// {{@link }}\n        f: bool\n    )\n    B(\n}}\n")
            } else {
                format!("module Sx{u}\ninterface I {{\n    op(\n        /// {{@link }}\n        p: bool\n    )\n    op2(q: bool) ->\n}}\n")
            };
            p.files.push(f("sx.slice", text));
            p.class = Class::Error;
            p.codes = vec!["E002"];
        }
        "err-file-attribute-without-module" => {
            // a file that declares no module can still carry file-level attributes, and they are validated
            let attr = *rng.pick(&["[[deprecated]]", "[[oneway]]", "[[compress(Args)]]", "[[allow(All)]]\n[[allow(Deprecated)]]\n[[oneway]]"]);
            p.files.push(f("ok.slice", format!("module Fa{u}\nstruct S {{ a: int32 }}\n\n{}", filler(rng, "Fa", fill))));
            p.files.push(f("attrs_only.slice", format!("{attr}\n// nothing else in here\n")));
            p.class = Class::Error;
            p.codes = vec!["E023"];
        }
        "err-base-not-an-interface" => {
            let base = *rng.pick(&["int32", "Sequence<int32>", "Dictionary<string, bool>", "string"]);
            p.files.push(f("bn.slice", format!("module Bn{u}\ninterface I : {base} {{}}\n\n{}", filler(rng, "Bn", fill))));
            p.class = Class::Error;
            p.codes = vec!["E017"];
        }
        "err-underlying-not-a-primitive" => {
            let under = *rng.pick(&["Sequence<int32>", "Dictionary<int32, bool>", "Result<bool, string>"]);
            p.files.push(f("un.slice", format!("module Un{u}\nenum E : {under} {{ A }}\n\n{}", filler(rng, "Un", fill))));
            p.class = Class::Error;
            p.codes = vec!["E017"];
        }
        "err-cycle-interface-inheritance" => {
            // (the pinned tree died of a stack overflow here: fixed)
            let text = match rng.below(3) {
                0 => format!("module Ci{u}\ninterface I : J {{}}\ninterface J : I {{}}\n"),
                1 => format!("module Ci{u}\ninterface I : I {{ op() }}\n"),
                _ => format!("module Ci{u}\ninterface A : B {{}}\ninterface B : C, D {{}}\ninterface C : B {{}}\ninterface D {{}}\n"),
            };
            p.files.push(f("ci.slice", format!("{text}\n{}", filler(rng, "Ci", fill))));
            p.class = Class::Error;
            p.codes = vec!["E032"];
        }
        "err-wide-text" => {
            let lead = *rng.pick(&["这个结构已经被弃用了，请改用", "élément dépréciée à côté →", "😀😀😀 см. также"]);
            p.files.push(f(
                "widerr.slice",
                format!("module WideErr{u}\n\n[cs::attribute(\"{lead}\")] struct S {{ /* {lead} */ a: NoSuchType{u} }}\n\n{}", filler(rng, "WideErr", fill)),
            ));
            p.class = Class::Error;
            p.codes = vec!["E033"];
        }
        "err-unresolved" => {
            p.files.push(f("good.slice", format!("module Good{u}\nstruct G {{ a: int32 }}\n")));
            p.files.push(f("bad.slice", format!("module Bad{u}\nstruct S {{ a: Missing, b: Also::Missing, c: Good{u}::G }}\n")));
            p.class = Class::Error;
            p.codes = vec!["E033"];
        }
        "err-many-unresolved" => {
            // a number of errors around the sizes where a status derived from the count would wrap
            let n = *rng.pick(&[2usize, 3, 255, 256, 257, 512]);
            let mut text = format!("module Many{u}\n\nstruct Big {{\n");
            for i in 0..n {
                text.push_str(&format!("    f{i}: Missing{i}\n"));
            }
            text.push_str("}\n");
            p.files.push(f("good.slice", format!("module Good{u}\nstruct G {{ a: int32 }}\n")));
            p.files.push(f("many.slice", text));
            p.class = Class::Error;
            p.codes = vec!["E033"];
        }
        "err-cycle" => {
            p.files.push(f("good.slice", format!("module Good{u}\nstruct G {{ a: int32 }}\n")));
            p.files.push(f("bad.slice", format!("module Bad{u}\nstruct A {{ b: B }}\nstruct B {{ a: A }}\nstruct C {{ c: Sequence<C?>, d: C }}\nstruct D {{ e: E }}\nstruct E {{ d: D }}\n")));
            p.class = Class::Error;
            p.codes = vec!["E032"];
        }
        "err-redefinition" => {
            // several independent collisions in one file
            p.files.push(f("good.slice", format!("module Good{u}\nstruct G {{ a: int32 }}\n")));
            p.files.push(f(
                "bad.slice",
                format!("module Bad{u}\nstruct A {{ x: int32 }}\nenum A {{ One }}\nstruct B {{ y: bool, y: bool }}\ninterface B {{}}\ninterface K {{ op(a: int32, a: string) }}\nstruct Q {{ z: bool }}\ncustom Q\nstruct R {{ r: bool }}\ntypealias R = int32\n"),
            ));
            p.class = Class::Error;
            p.codes = vec!["E010"];
        }
        "err-redefinition-cross-file" => {
            p.files.push(f("one.slice", format!("module Clash{u}\nstruct A {{ x: int32 }}\nstruct B {{ x: int32 }}\nstruct C {{ x: int32 }}\n")));
            p.files.push(f("two.slice", format!("module Clash{u}\nenum A {{ One }}\nstruct D {{ x: int32 }}\n")));
            p.files.push(f("three.slice", format!("module Clash{u}\ncustom B\ncustom C\ncustom D\n")));
            p.class = Class::Error;
            p.codes = vec!["E010"];
        }
        "err-rule" => {
            p.files.push(f("good.slice", format!("module Good{u}\nstruct G {{ a: int32 }}\n")));
            p.files.push(f(
                "bad.slice",
                format!("module Bad{u}\nstruct A {{ tag(1) x: int32?, tag(1) y: int32?, tag(2) z: int32 }}\nstruct D {{ d: Dictionary<float32, int32> }}\ncompact struct Em {{}}\nenum En : string {{ A }}\n"),
            ));
            p.class = Class::Error;
            p.codes = vec!["E012", "E016", "E005", "E018", "E009"];
        }
        "clean-module-vs-definition" => {
            // a definition that shares its scoped name with a module declared in another file: legal, and uses of the
            // name resolve to the definition in every file order (the pinned tree let the last file win: fixed)
            p.files.push(f("k1.slice", format!("module Kn{u}\nstruct B {{ x: int32 }}\nstruct C {{ b: B }}\n")));
            p.files.push(f("k2.slice", format!("module Kn{u}::B\nstruct Z {{ q: bool }}\n")));
        }
        other => panic!("unknown template {other}"),
    }
    p
}

// ------------------------------------------------------------------------------------------------------------------
// Seeded random multi-file programs (used by C15): entities form a DAG by construction, their placement into files
// and modules is random, so cross-file forward references, aliases with attributes, deprecated entities used from
// several files, doc links and per-file preprocessor symbols all occur together.
// ------------------------------------------------------------------------------------------------------------------

#[derive(Clone, Debug, PartialEq)]
enum Kind {
    Struct,
    Enum,
    Alias,
    Interface,
    Custom,
}

struct Ent {
    kind: Kind,
    name: String,
    module: usize,
    file: usize,
    deprecated: bool,
}

/// `inject`: 0 none, 1 containment cycle, 2 redefinition, 3 unresolved type, 4 illegal dictionary key next to a legal twin.
pub fn random_program(rng: &mut Rng, inject: u8) -> Program {
    let u = format!("{}", (b'A' + rng.below(26) as u8) as char);
    let modules: Vec<String> = vec![format!("Rp{u}"), format!("Rp{u}::Sub"), format!("Rq{u}"), format!("Rp{u}::Sub::Deep")];
    let n_files = 2 + rng.usize_below(3);
    let file_module: Vec<usize> = (0..n_files).map(|_| rng.usize_below(modules.len())).collect();
    let n_ents = 4 + rng.usize_below(9);
    let mut ents: Vec<Ent> = Vec::new();
    let mut bodies: Vec<String> = Vec::new();
    // (module, identifier) pairs that some doc comment links by relative name
    let mut relative_links: Vec<(usize, String)> = Vec::new();
    let prim = ["int32", "string", "bool", "float64", "varuint62", "uint8"];
    for i in 0..n_ents {
        let file = rng.usize_below(n_files);
        let module = file_module[file];
        let kind = match rng.below(12) {
            0..=3 => Kind::Struct,
            4 | 5 => Kind::Enum,
            6 | 7 => Kind::Alias,
            8 | 9 | 10 => Kind::Interface,
            _ => Kind::Custom,
        };
        let mut name = format!("{}{}", match kind { Kind::Struct => "S", Kind::Enum => "E", Kind::Alias => "A", Kind::Interface => "I", Kind::Custom => "C" }, i);
        // the same simple identifier in several modules (legal: the scoped names differ)
        if rng.chance(1, 4) {
            let shared = *rng.pick(&["Key", "Item", "Node", "Error"]);
            if !ents.iter().any(|e: &Ent| e.name == shared && e.module == module) {
                name = shared.to_owned();
            }
        }
        let deprecated = kind != Kind::Alias && rng.chance(1, 6);
        // a type expression that refers to an EARLIER entity (never an interface) or a primitive
        let earlier: Vec<usize> = (0..ents.len()).filter(|j| ents[*j].kind != Kind::Interface).collect();
        let mut type_expr = |rng: &mut Rng, ents: &Vec<Ent>| -> String {
            let base = if !earlier.is_empty() && rng.chance(2, 3) {
                let j = *rng.pick(&earlier);
                // qualified from the global scope, or relative when it happens to be in the same module
                if ents[j].module == module && rng.chance(1, 2) { ents[j].name.clone() } else { format!("{}::{}", modules[ents[j].module], ents[j].name) }
            } else {
                (*rng.pick(&prim)).to_owned()
            };
            match rng.below(6) {
                0 => format!("Sequence<{base}>"),
                1 => format!("Dictionary<string, {base}>"),
                2 => format!("Sequence<{base}?>"),
                _ => base,
            }
        };
        let mut doc = String::new();
        if let Some((_, ident)) = relative_links.iter().find(|(m, id)| *m == module && ents.iter().any(|e| e.module == module && &e.name == id)) {
            if rng.chance(1, 2) {
                doc = format!("/// The sibling {{@link {ident}}}.\n");
            }
        }
        if doc.is_empty() && rng.chance(1, 4) && !ents.is_empty() {
            let j = rng.usize_below(ents.len());
            if rng.chance(1, 5) {
                doc = format!("/// {} {{@link {}::Nowhere{i}}}.\n", *rng.pick(&["Relates to", "关联到这个东西", "Liée à l'élément", "😀"]), modules[ents[j].module]);
            } else {
                doc = format!("/// {} {{@link {}::{}}}.\n", *rng.pick(&["Relates to", "关联到这个东西", "Liée à l'élément", "😀"]), modules[ents[j].module], ents[j].name);
            }
        }
        let attr = if deprecated {
            if rng.chance(1, 2) { "[deprecated(\"old\")]\n" } else { "[deprecated]\n" }
        } else if rng.chance(1, 8) {
            // silences uses of deprecated things inside this definition only
            if rng.chance(1, 2) { "[allow(Deprecated)]\n" } else { "[allow(BrokenDocLink, Deprecated, IncorrectDocComment, MalformedDocComment)]\n" }
        } else if rng.chance(1, 8) {
            "[cs::attribute(\"x\")]\n"
        } else {
            ""
        };
        let body = match kind {
            Kind::Struct => {
                let nf = 1 + rng.usize_below(3);
                let mut fields = Vec::new();
                for k in 0..nf {
                    if rng.chance(1, 4) {
                        fields.push(format!("    tag({}) f{k}: {}?", k + 1, (*rng.pick(&prim))));
                    } else {
                        let t = type_expr(rng, &ents);
                        fields.push(format!("    f{k}: {t}"));
                    }
                }
                if rng.chance(1, 5) && fields.iter().all(|f| !f.contains("tag(")) {
                    format!("{doc}{attr}compact struct {name} {{\n{}\n}}\n", fields.join("\n"))
                } else {
                    format!("{doc}{attr}struct {name} {{\n{}\n}}\n", fields.join("\n"))
                }
            }
            Kind::Enum => {
                if rng.chance(1, 3) {
                    // an enum with fields
                    let t1 = type_expr(rng, &ents);
                    let t2 = type_expr(rng, &ents);
                    let unchecked = if rng.chance(1, 3) { "unchecked " } else { "" };
                    format!("{doc}{attr}{unchecked}enum {name} {{\n    {name}A(a: {t1}, tag(1) b: string?)\n    {name}B\n    {name}C(c: {t2})\n}}\n")
                } else {
                    let under = *rng.pick(&["int32", "uint8", "int16", "varint32"]);
                    // sometimes an enumerator carries the identifier of a sibling entity, and the doc comment links
                    // that identifier by its relative name (it must bind to the enumerator: the search starts at
                    // the documented element itself)
                    let sibling = ents.iter().filter(|e| e.module == module && e.name != name).map(|e| e.name.clone()).next();
                    match sibling {
                        Some(sib) if rng.chance(1, 2) => {
                            relative_links.push((module, sib.clone()));
                            format!("/// Own member {{@link {sib}}}.\n{attr}enum {name} : {under} {{ {name}X = {}, {sib}, {name}Z = {} }}\n", rng.below(5), 10 + rng.below(90))
                        }
                        _ => format!("{doc}{attr}enum {name} : {under} {{ {name}X = {}, {name}Y, {name}Z = {} }}\n", rng.below(5), 10 + rng.below(90)),
                    }
                }
            }
            Kind::Alias => {
                let t = type_expr(rng, &ents);
                if rng.chance(1, 2) {
                    format!("{doc}typealias {name} = [cs::type(\"T{i}\")] {t}\n")
                } else {
                    format!("{doc}typealias {name} = {t}\n")
                }
            }
            Kind::Interface => {
                let bases: Vec<String> = ents.iter().filter(|e| e.kind == Kind::Interface).filter(|_| rng.chance(1, 2)).map(|e| format!("{}::{}", modules[e.module], e.name)).collect();
                let inherit = if bases.is_empty() { String::new() } else { format!(" : {}", bases.join(", ")) };
                let t = type_expr(rng, &ents);
                let t2 = type_expr(rng, &ents);
                let t3 = type_expr(rng, &ents);
                let ret = match rng.below(5) {
                    0 => format!(" -> (r1: {t2}, r2: {})", (*rng.pick(&prim))),
                    1 => format!(" -> Result<{t2}, {t3}>"),
                    2 => format!(" -> stream {}", (*rng.pick(&prim))),
                    3 => String::new(),
                    _ => format!(" -> {}", (*rng.pick(&prim))),
                };
                // links inside every kind of tag: each link of a program is resolved on its own, wherever it stands
                let target = if ents.is_empty() { None } else { let j = rng.usize_below(ents.len()); Some(format!("{}::{}", modules[ents[j].module], ents[j].name)) };
                let single_return = !ret.is_empty() && !ret.starts_with(" -> (");
                let opdoc = match (rng.below(6), &target) {
                    (0, _) => format!("    /// Does {i}.\n    /// @param p: the input\n"),
                    (1, _) => format!("    /// @param nope: no such parameter\n"),
                    (2, Some(t)) if single_return => format!("    /// Does {i} with {{@link {t}}}.\n    /// @returns: something like {{@link {t}}}\n"),
                    (3, Some(t)) => format!("    /// @param p: see {{@link {t}}}\n    /// @see {t}\n"),
                    (4, Some(t)) if single_return => format!("    /// @returns: a {{@link {t}}} or {{@link {}::Nowhere{i}}}\n", modules[module]),
                    _ => String::new(),
                };
                // operation attributes travel in the request like everything else
                let opattr = match rng.below(8) {
                    0 if ret.is_empty() => "    [oneway]\n",
                    1 => "    [compress(Args, Return)]\n",
                    2 => "    [compress(Args)]\n",
                    3 => "    [cs::encodedReturn]\n",
                    _ => "",
                };
                let idem = if rng.chance(1, 3) { "idempotent " } else { "" };
                let second = if rng.chance(1, 2) { format!("\n    second{i}(tag(1) a: {}?, b: stream {})", (*rng.pick(&prim)), (*rng.pick(&prim))) } else { String::new() };
                format!("{doc}{attr}interface {name}{inherit} {{\n{opdoc}{opattr}    {idem}op{i}(p: {t}){ret}{second}\n}}\n")
            }
            Kind::Custom => format!("{doc}{attr}custom {name}\n"),
        };
        ents.push(Ent { kind, name, module, file, deprecated });
        bodies.push(body);
    }
    // injected errors
    let mut extra: Vec<(usize, String)> = Vec::new();
    let structs: Vec<usize> = (0..ents.len()).filter(|i| ents[*i].kind == Kind::Struct).collect();
    match inject {
        1 if structs.len() >= 1 => {
            // two new structs in different files that contain each other, plus a user of one of them elsewhere
            let (fa, fb, fc) = (rng.usize_below(n_files), rng.usize_below(n_files), rng.usize_below(n_files));
            extra.push((fa, format!("struct CycA {{ b: {}::CycB }}\n", modules[file_module[fb]])));
            extra.push((fb, format!("struct CycB {{ a: Sequence<{}::CycA> }}\n", modules[file_module[fa]])));
            extra.push((fc, format!("struct CycUser {{ a: {}::CycA }}\n", modules[file_module[fa]])));
        }
        2 if !ents.is_empty() => {
            let j = rng.usize_below(ents.len());
            // the same name again in another file of the same module (if any), else in the same file
            let f2 = (0..n_files).find(|f| file_module[*f] == ents[j].module && *f != ents[j].file).unwrap_or(ents[j].file);
            extra.push((f2, format!("custom {}\n", ents[j].name)));
            if ents.len() > 1 {
                let k = (j + 1) % ents.len();
                extra.push((ents[k].file, format!("custom {}\n", ents[k].name)));
            }
        }
        4 => {
            // `Dictionary<KeyT, int32>` in two modules: KeyT is an enum (a legal key) in one and a struct with a
            // string field (not a legal key) in the other; rejected whatever the order
            let fa = rng.usize_below(n_files);
            let fb = (0..n_files).find(|f| file_module[*f] != file_module[fa]).unwrap_or(fa);
            if file_module[fa] != file_module[fb] {
                extra.push((fa, "enum KeyT : uint8 { K1, K2 }\nstruct UsesGoodKey { d: Dictionary<KeyT, int32> }\n".to_owned()));
                extra.push((fb, "struct KeyT { s: string }\nstruct UsesBadKey { d: Dictionary<KeyT, int32> }\n".to_owned()));
            }
        }
        3 => {
            let f = rng.usize_below(n_files);
            extra.push((f, format!("struct Dangling {{ x: {}::DoesNotExist, y: AlsoMissing }}\n", modules[rng.usize_below(modules.len())])));
        }
        _ => {}
    }
    let _ = ents.iter().filter(|e| e.deprecated).count();
    // files
    let mut files = Vec::new();
    for f in 0..n_files {
        let mut text = String::new();
        match rng.below(10) {
            0 => text.push_str("[[allow(Deprecated)]]\n"),
            // several lints in one attribute: their order is part of what is sent to the generators
            1 => text.push_str("[[allow(Deprecated, BrokenDocLink, IncorrectDocComment)]]\n"),
            2 => text.push_str("[[allow(MalformedDocComment, Deprecated)]]\n"),
            _ => {}
        }
        if rng.chance(1, 4) {
            text.push_str(&format!("#define SYM{}\n", rng.below(3)));
        }
        // a module is re-opened by every file that declares it; each declaration may carry attributes of its own
        // (they belong to that file's declaration and to nothing else)
        if rng.chance(1, 3) {
            text.push_str(&format!("[cs::namespace(\"Ns{f}\")]\n"));
        }
        text.push_str(&format!("module {}\n\n", modules[file_module[f]]));
        for (i, e) in ents.iter().enumerate() {
            if e.file == f {
                text.push_str(&bodies[i]);
                text.push('\n');
            }
        }
        for (ef, body) in &extra {
            if *ef == f {
                text.push_str(body);
                text.push('\n');
            }
        }
        // a definition guarded by a symbol that only OTHER files may define: must never appear
        if rng.chance(1, 3) {
            let k = rng.below(3);
            let k2 = (k + 1) % 3;
            match rng.below(3) {
                0 => text.push_str(&format!("#if SYM{k}\nstruct Guarded{f}By{k} {{ g: bool }}\n#endif\n")),
                1 => text.push_str(&format!("#if SYM{k} && (!SYM{k2})\nstruct Guarded{f}By{k} {{ g: bool }}\n#elif SYM{k2}\nstruct Guarded{f}By{k2} {{ h: bool }}\n#else\nstruct Unguarded{f} {{ u: bool }}\n#endif\n")),
                _ => text.push_str(&format!("#if !(SYM{k} || SYM{k2})\nstruct Neither{f} {{ n: bool }}\n#endif\n")),
            }
        }
        if rng.chance(1, 6) {
            text.push_str(&format!("#undef SYM{}\n", rng.below(3)));
        }
        files.push(SrcFile { name: format!("r{f}.slice"), text });
    }
    // the class follows what was actually injected (an injection that found nothing to attach to is a clean program;
    // clean random programs may carry Deprecated / BrokenDocLink warnings)
    Program { template: "random", files, class: if extra.is_empty() { Class::Clean } else { Class::Error }, codes: vec![], lints: vec![] }
}

/// A Slice file that declares no module: legal, and nothing of it reaches the generators.
pub fn blank_text(rng: &mut Rng) -> String {
    match rng.below(5) {
        0 => String::new(),
        1 => "// nothing here yet\n".into(),
        2 => "\n\n   \n".into(),
        3 => "#define SOMETHING\n".into(),
        _ => "#if NEVER_DEFINED\nmodule Hidden\nstruct H {}\n#endif\n".into(),
    }
}
