//! usage: launcher <uid|-> <alarm-seconds> <address-space-limit-bytes|0> <no-aslr 0|1> -- <program> [args...]
use std::ffi::CString;

fn main() {
    let args: Vec<String> = std::env::args().collect();
    let fail = |m: &str| -> ! {
        eprintln!("launcher: {m}");
        std::process::exit(126)
    };
    if args.len() < 7 || args[5] != "--" {
        fail("usage: launcher <uid|-> <alarm-s> <as-limit|0> <no-aslr> -- <program> [args...]");
    }
    unsafe {
        if args[4] == "1" {
            libc::personality(libc::ADDR_NO_RANDOMIZE as libc::c_ulong);
        }
        let limit: u64 = args[3].parse().unwrap_or(0);
        if limit > 0 {
            let lim = libc::rlimit { rlim_cur: limit, rlim_max: limit };
            libc::setrlimit(libc::RLIMIT_AS, &lim);
        }
        let zero = libc::rlimit { rlim_cur: 0, rlim_max: 0 };
        libc::setrlimit(libc::RLIMIT_CORE, &zero);
        let alarm: u32 = args[2].parse().unwrap_or(0);
        if alarm > 0 {
            libc::alarm(alarm);
        }
        if args[1] != "-" {
            let uid: u32 = args[1].parse().unwrap_or_else(|_| fail("bad uid"));
            if libc::setgroups(0, std::ptr::null()) != 0 || libc::setgid(uid) != 0 || libc::setuid(uid) != 0 {
                fail("cannot drop privileges");
            }
        }
        let prog = CString::new(args[6].as_bytes()).unwrap();
        let cargs: Vec<CString> = args[6..].iter().map(|a| CString::new(a.as_bytes()).unwrap()).collect();
        let mut ptrs: Vec<*const libc::c_char> = cargs.iter().map(|c| c.as_ptr()).collect();
        ptrs.push(std::ptr::null());
        libc::execv(prog.as_ptr(), ptrs.as_ptr());
    }
    fail("exec failed");
}
