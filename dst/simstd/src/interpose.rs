//! The libc seam: `#[no_mangle] extern "C"` definitions of the libc entry points std uses for file I/O and for
//! keying its hash maps. The static linker binds std's references to these in preference to libc's; each forwards to
//! the real function (`dlsym(RTLD_NEXT)`) unless the scenario's fault plan says otherwise.
//!
//! Paths outside the world root and descriptors not opened below it are always passed through untouched.

use crate::kernel::{self, Kernel, KERNEL};
use crate::raw;
use libc::{c_char, c_int, c_uint, c_void, mode_t, size_t, ssize_t};
use simproto::*;
use std::collections::BTreeMap;
use std::ffi::{CStr, CString};
use std::sync::atomic::{AtomicU64, AtomicU8, AtomicUsize, Ordering::SeqCst};
use std::sync::Mutex;

const UNINIT: u8 = 0;
const INITIALISING: u8 = 1;
const ACTIVE: u8 = 2;
const INACTIVE: u8 = 3;
static STATE: AtomicU8 = AtomicU8::new(UNINIT);

struct FdInfo {
    rel: String,
    write: bool,
}

struct DirInfo {
    rel: String,
    delivered: u32,
}

struct FsState {
    root: String,
    fds: BTreeMap<i32, FdInfo>,
    dirs: BTreeMap<usize, DirInfo>,
    faults: Vec<(FsFault, u32)>,
    transparent_read: bool,
    transparent_write: bool,
    /// EINTR is injected at most once in a row per descriptor, so that retry loops terminate
    last_eintr: BTreeMap<i32, bool>,
}

static FS: Mutex<Option<FsState>> = Mutex::new(None);

macro_rules! real {
    ($name:ident : fn($($arg:ty),*) -> $ret:ty) => {{
        static PTR: AtomicUsize = AtomicUsize::new(0);
        let mut p = PTR.load(SeqCst);
        if p == 0 {
            p = libc::dlsym(libc::RTLD_NEXT, concat!(stringify!($name), "\0").as_ptr() as *const c_char) as usize;
            PTR.store(p, SeqCst);
        }
        if p == 0 {
            raw::write_all_fd(2, concat!("simstd: libc has no ", stringify!($name), "\n").as_bytes());
            raw::exit_now(EXIT_SEAM_MISUSE);
        }
        std::mem::transmute::<usize, unsafe extern "C" fn($($arg),*) -> $ret>(p)
    }};
}

fn set_errno(e: c_int) {
    unsafe { *libc::__errno_location() = e };
}
fn get_errno() -> c_int {
    unsafe { *libc::__errno_location() }
}

pub fn ensure_init() {
    if STATE.load(SeqCst) != UNINIT {
        return;
    }
    if STATE.compare_exchange(UNINIT, INITIALISING, SeqCst, SeqCst).is_err() {
        return;
    }
    // From here until the final store every interposer passes through (STATE == INITIALISING).
    let scenario = std::env::var_os("SIM_SCENARIO");
    let Some(path) = scenario else {
        STATE.store(INACTIVE, SeqCst);
        return;
    };
    let sim: Sim = match std::fs::read(&path).map_err(|e| e.to_string()).and_then(|b| serde_json::from_slice(&b).map_err(|e| e.to_string())) {
        Ok(s) => s,
        Err(e) => {
            raw::write_all_fd(2, format!("simstd: cannot load scenario {:?}: {e}\n", path).as_bytes());
            raw::exit_now(EXIT_SEAM_MISUSE);
        }
    };
    if let Some(t) = std::env::var_os("SIM_TRACE") {
        if let Ok(c) = CString::new(t.to_string_lossy().as_bytes()) {
            unsafe {
                let open = real!(open64: fn(*const c_char, c_int, mode_t) -> c_int);
                let fd = open(c.as_ptr(), libc::O_WRONLY | libc::O_CREAT | libc::O_APPEND | libc::O_CLOEXEC, 0o644);
                if fd >= 0 {
                    let hi = libc::fcntl(fd, libc::F_DUPFD_CLOEXEC, 200);
                    if hi >= 0 {
                        let close = real!(close: fn(c_int) -> c_int);
                        close(fd);
                        raw::TRACE_FD.store(hi, SeqCst);
                    } else {
                        raw::TRACE_FD.store(fd, SeqCst);
                    }
                }
            }
        }
    }
    if sim.heap_shift > 0 {
        unsafe {
            let p = libc::malloc(sim.heap_shift) as *mut u8;
            if !p.is_null() {
                std::ptr::write_volatile(p, 1);
            }
        }
    }
    let root = sim.root.trim_end_matches('/').to_owned();
    let fs = FsState {
        root,
        fds: BTreeMap::new(),
        dirs: BTreeMap::new(),
        faults: sim.fs_faults.iter().cloned().map(|f| (f, 0)).collect(),
        transparent_read: sim.buggify.transparent_file_read,
        transparent_write: sim.buggify.transparent_file_write,
        last_eintr: BTreeMap::new(),
    };
    *FS.lock().unwrap_or_else(|p| p.into_inner()) = Some(fs);
    let (hash_seed, heap_shift) = (sim.hash_seed, sim.heap_shift);
    let mut k = Kernel::new(sim);
    k.emit(Ev::Init { hash_seed, heap_shift });
    *KERNEL.lock().unwrap_or_else(|p| p.into_inner()) = Some(k);
    unsafe {
        libc::atexit(on_exit);
    }
    STATE.store(ACTIVE, SeqCst);
}

extern "C" fn on_exit() {
    if STATE.load(SeqCst) == ACTIVE {
        if let Ok(mut g) = KERNEL.try_lock() {
            if let Some(k) = g.as_mut() {
                k.finish();
            }
        }
    }
}

fn active() -> bool {
    ensure_init();
    STATE.load(SeqCst) == ACTIVE
}

// ------------------------------------------------------------------------------------------------------------------
// Path classification
// ------------------------------------------------------------------------------------------------------------------

fn lexical_abs(path: &str) -> String {
    let mut parts: Vec<String> = Vec::new();
    let abs = if path.starts_with('/') {
        path.to_owned()
    } else {
        let mut buf = vec![0u8; 4096];
        let cwd = unsafe {
            let p = libc::getcwd(buf.as_mut_ptr() as *mut c_char, buf.len());
            if p.is_null() {
                String::from("/")
            } else {
                CStr::from_ptr(p).to_string_lossy().into_owned()
            }
        };
        format!("{cwd}/{path}")
    };
    for comp in abs.split('/') {
        match comp {
            "" | "." => {}
            ".." => {
                parts.pop();
            }
            c => parts.push(c.to_owned()),
        }
    }
    format!("/{}", parts.join("/"))
}

unsafe fn real_realpath(path: &CStr) -> Option<String> {
    let f = real!(realpath: fn(*const c_char, *mut c_char) -> *mut c_char);
    let saved = get_errno();
    let mut buf = vec![0 as c_char; libc::PATH_MAX as usize + 1];
    let r = f(path.as_ptr(), buf.as_mut_ptr());
    set_errno(saved);
    if r.is_null() {
        None
    } else {
        Some(CStr::from_ptr(buf.as_ptr()).to_string_lossy().into_owned())
    }
}

/// Canonical identity of `path` relative to the world root, or None if it lies outside. `follow_last` = false keeps
/// the last component as written (lstat, unlink, rename, symlink creation).
unsafe fn classify(fs: &FsState, path: *const c_char, follow_last: bool) -> Option<String> {
    if path.is_null() {
        return None;
    }
    let c = CStr::from_ptr(path);
    let s = c.to_string_lossy().into_owned();
    let canon = if follow_last { real_realpath(c) } else { None }.or_else(|| {
        // resolve the directory part, keep the last component
        let abs = lexical_abs(&s);
        let (dir, base) = match abs.rfind('/') {
            Some(i) => (abs[..i].to_owned(), abs[i + 1..].to_owned()),
            None => (String::from("/"), abs.clone()),
        };
        let dir = if dir.is_empty() { String::from("/") } else { dir };
        let dir_real = CString::new(dir.clone()).ok().and_then(|d| real_realpath(&d)).unwrap_or(dir);
        Some(if base.is_empty() { dir_real } else { format!("{}/{}", dir_real.trim_end_matches('/'), base) })
    })?;
    if canon == fs.root {
        return Some(String::new());
    }
    let prefix = format!("{}/", fs.root);
    canon.strip_prefix(&prefix).map(|r| r.to_owned())
}

// Kernel code never calls a libc file function while it holds the kernel lock (its own I/O uses direct system
// calls), so an interposer can wait for the lock: with a multi-threaded compiler another thread may hold it for a
// moment, and an event must not be lost because of that.
fn emit(ev: Ev) {
    // a compiler that does its file I/O on helper threads is multi-threaded although it may be back to one thread by
    // the time it talks to its generators: notice it here as well
    let threads = raw::thread_count();
    let mut g = KERNEL.lock().unwrap_or_else(|p| p.into_inner());
    if let Some(k) = g.as_mut() {
        k.max_threads = k.max_threads.max(threads);
        k.emit(ev);
    }
}

fn choose(site: &str, bound: u64) -> u64 {
    let mut g = KERNEL.lock().unwrap_or_else(|p| p.into_inner());
    g.as_mut().map(|k| k.choose(site, bound)).unwrap_or(0)
}

/// Looks for a fault rule that fires on this call.
fn fault_for(fs: &mut FsState, op: FsOp, rel: &str) -> Option<FsAction> {
    for (rule, count) in fs.faults.iter_mut() {
        if rule.op == op && (rule.path == rel || (rule.path == "*" )) {
            *count += 1;
            if *count == rule.nth {
                return Some(rule.action.clone());
            }
        }
    }
    None
}

thread_local! {
    /// set while this thread is inside `with_fs` (a libc call made by the seam itself must pass through)
    static IN_SEAM: std::cell::Cell<bool> = const { std::cell::Cell::new(false) };
}

fn with_fs<R>(f: impl FnOnce(&mut FsState) -> R) -> Option<R> {
    if !active() {
        return None;
    }
    // Re-entrancy is a per-thread matter; another thread holding the lock for a moment is not (a compiler may do its
    // file I/O on helper threads, and a fault must not be skipped because of contention).
    if IN_SEAM.with(|c| c.replace(true)) {
        return None;
    }
    let r = {
        let mut g = FS.lock().unwrap_or_else(|p| p.into_inner());
        g.as_mut().map(f)
    };
    IN_SEAM.with(|c| c.set(false));
    r
}

fn flags_text(flags: c_int) -> String {
    let mut s = String::new();
    match flags & libc::O_ACCMODE {
        libc::O_RDONLY => s.push('r'),
        libc::O_WRONLY => s.push('w'),
        _ => s.push_str("rw"),
    }
    if flags & libc::O_CREAT != 0 {
        s.push('c');
    }
    if flags & libc::O_TRUNC != 0 {
        s.push('t');
    }
    if flags & libc::O_APPEND != 0 {
        s.push('a');
    }
    if flags & libc::O_EXCL != 0 {
        s.push('x');
    }
    if flags & libc::O_DIRECTORY != 0 {
        s.push('d');
    }
    s
}

// ------------------------------------------------------------------------------------------------------------------
// open / close
// ------------------------------------------------------------------------------------------------------------------

unsafe fn do_open(which: u8, dirfd: c_int, path: *const c_char, flags: c_int, mode: mode_t) -> c_int {
    let call_real = |path: *const c_char| -> c_int {
        match which {
            0 => (real!(open: fn(*const c_char, c_int, mode_t) -> c_int))(path, flags, mode),
            1 => (real!(open64: fn(*const c_char, c_int, mode_t) -> c_int))(path, flags, mode),
            2 => (real!(openat: fn(c_int, *const c_char, c_int, mode_t) -> c_int))(dirfd, path, flags, mode),
            _ => (real!(openat64: fn(c_int, *const c_char, c_int, mode_t) -> c_int))(dirfd, path, flags, mode),
        }
    };
    if which >= 2 && dirfd != libc::AT_FDCWD && !path.is_null() && *path != b'/' as c_char {
        // relative to a directory descriptor: not used by the code under test; pass through
        return call_real(path);
    }
    let writing = (flags & libc::O_ACCMODE) != libc::O_RDONLY || flags & (libc::O_CREAT | libc::O_TRUNC) != 0;
    let decision = with_fs(|fs| {
        let rel = classify(fs, path, flags & libc::O_NOFOLLOW == 0)?;
        let op = if writing { FsOp::OpenWrite } else { FsOp::OpenRead };
        let fault = fault_for(fs, op, &rel);
        Some((rel, fault))
    })
    .flatten();
    let Some((rel, fault)) = decision else {
        return call_real(path);
    };
    if let Some(FsAction::Errno { errno }) = fault {
        emit(Ev::Fs { op: "open".into(), path: rel, path2: String::new(), flags: flags_text(flags), result: -(errno as i64), fault: "errno".into() });
        set_errno(errno);
        return -1;
    }
    let fd = call_real(path);
    let err = get_errno();
    let result = if fd >= 0 { fd as i64 } else { -(err as i64) };
    if fd >= 0 {
        with_fs(|fs| {
            fs.fds.insert(fd, FdInfo { rel: rel.clone(), write: writing });
        });
    }
    // reads are logged too: C17 wants to know which files were opened
    emit(Ev::Fs { op: "open".into(), path: rel, path2: String::new(), flags: flags_text(flags), result, fault: String::new() });
    set_errno(err);
    fd
}

/// Thread creation is observed so that the single-threaded compiler (the shipped one) never pays for asking the kernel
/// how many threads it has: as long as this was never called the answer is 1.
#[no_mangle]
pub unsafe extern "C" fn pthread_create(
    thread: *mut libc::pthread_t,
    attr: *const libc::pthread_attr_t,
    start: extern "C" fn(*mut libc::c_void) -> *mut libc::c_void,
    arg: *mut libc::c_void,
) -> c_int {
    raw::THREADS_CREATED.fetch_add(1, SeqCst);
    let f = real!(pthread_create: fn(*mut libc::pthread_t, *const libc::pthread_attr_t, extern "C" fn(*mut libc::c_void) -> *mut libc::c_void, *mut libc::c_void) -> c_int);
    f(thread, attr, start, arg)
}

#[no_mangle]
pub unsafe extern "C" fn open(path: *const c_char, flags: c_int, mode: mode_t) -> c_int {
    do_open(0, libc::AT_FDCWD, path, flags, mode)
}
#[no_mangle]
pub unsafe extern "C" fn open64(path: *const c_char, flags: c_int, mode: mode_t) -> c_int {
    do_open(1, libc::AT_FDCWD, path, flags, mode)
}
#[no_mangle]
pub unsafe extern "C" fn openat(dirfd: c_int, path: *const c_char, flags: c_int, mode: mode_t) -> c_int {
    do_open(2, dirfd, path, flags, mode)
}
#[no_mangle]
pub unsafe extern "C" fn openat64(dirfd: c_int, path: *const c_char, flags: c_int, mode: mode_t) -> c_int {
    do_open(3, dirfd, path, flags, mode)
}
#[no_mangle]
pub unsafe extern "C" fn creat(path: *const c_char, mode: mode_t) -> c_int {
    do_open(1, libc::AT_FDCWD, path, libc::O_CREAT | libc::O_WRONLY | libc::O_TRUNC, mode)
}
#[no_mangle]
pub unsafe extern "C" fn creat64(path: *const c_char, mode: mode_t) -> c_int {
    do_open(1, libc::AT_FDCWD, path, libc::O_CREAT | libc::O_WRONLY | libc::O_TRUNC, mode)
}

#[no_mangle]
pub unsafe extern "C" fn close(fd: c_int) -> c_int {
    if fd >= 200 && fd == raw::TRACE_FD.load(SeqCst) {
        // the program must not close the trace
        return 0;
    }
    with_fs(|fs| {
        fs.fds.remove(&fd);
        fs.last_eintr.remove(&fd);
    });
    (real!(close: fn(c_int) -> c_int))(fd)
}

// ------------------------------------------------------------------------------------------------------------------
// read / write
// ------------------------------------------------------------------------------------------------------------------

enum Xfer {
    Pass,
    Short(usize),
    Eintr,
    Errno(c_int),
}

fn plan_transfer(fd: c_int, writing: bool, count: usize) -> (Xfer, Option<String>) {
    let r = with_fs(|fs| {
        let info = fs.fds.get(&fd)?;
        if info.write != writing && writing {
            // a descriptor opened read-only that is written to: let the kernel answer
        }
        let rel = info.rel.clone();
        let op = if writing { FsOp::Write } else { FsOp::Read };
        if let Some(a) = fault_for(fs, op, &rel) {
            let x = match a {
                FsAction::Errno { errno } => Xfer::Errno(errno),
                FsAction::Short { n } => Xfer::Short(n.max(1).min(count.max(1))),
                FsAction::Eintr => Xfer::Eintr,
            };
            return Some((x, Some(rel)));
        }
        let transparent = if writing { fs.transparent_write } else { fs.transparent_read };
        if transparent && count > 0 {
            let was_eintr = fs.last_eintr.get(&fd).copied().unwrap_or(false);
            return Some((Xfer::Pass, Some(format!("?{}|{}", was_eintr as u8, rel))));
        }
        Some((Xfer::Pass, None))
    })
    .flatten();
    match r {
        None => (Xfer::Pass, None),
        Some((Xfer::Pass, Some(tag))) if tag.starts_with('?') => {
            // transparent buggify: decided by a choice (outside the FS lock, the kernel has its own)
            let (flag, rel) = tag[1..].split_once('|').unwrap_or(("0", ""));
            let was_eintr = flag == "1";
            let c = choose(if writing { "file-write" } else { "file-read" }, 6);
            let x = match c {
                1 => Xfer::Short(1),
                2 => Xfer::Short((count / 2).max(1)),
                3 if !was_eintr => Xfer::Eintr,
                _ => Xfer::Pass,
            };
            with_fs(|fs| {
                fs.last_eintr.insert(fd, matches!(x, Xfer::Eintr));
            });
            let rel = rel.to_owned();
            match x {
                Xfer::Pass => (Xfer::Pass, None),
                other => (other, Some(rel)),
            }
        }
        Some(other) => other,
    }
}

#[no_mangle]
pub unsafe extern "C" fn read(fd: c_int, buf: *mut c_void, count: size_t) -> ssize_t {
    let f = real!(read: fn(c_int, *mut c_void, size_t) -> ssize_t);
    if STATE.load(SeqCst) != ACTIVE {
        return f(fd, buf, count);
    }
    let (x, rel) = plan_transfer(fd, false, count);
    match x {
        Xfer::Pass => f(fd, buf, count),
        Xfer::Short(n) => {
            let r = f(fd, buf, n.min(count));
            emit(Ev::Fs { op: "read".into(), path: rel.unwrap_or_default(), path2: String::new(), flags: String::new(), result: r as i64, fault: "short".into() });
            r
        }
        Xfer::Eintr => {
            emit(Ev::Fs { op: "read".into(), path: rel.unwrap_or_default(), path2: String::new(), flags: String::new(), result: -(libc::EINTR as i64), fault: "eintr".into() });
            set_errno(libc::EINTR);
            -1
        }
        Xfer::Errno(e) => {
            emit(Ev::Fs { op: "read".into(), path: rel.unwrap_or_default(), path2: String::new(), flags: String::new(), result: -(e as i64), fault: "errno".into() });
            set_errno(e);
            -1
        }
    }
}

unsafe fn logged_write(fd: c_int, rel: Option<String>, fault: &str, result: i64) {
    // every write to a file below the root is an effect the oracles want to see
    if let Some(rel) = rel {
        emit(Ev::Fs { op: "write".into(), path: rel, path2: String::new(), flags: String::new(), result, fault: fault.into() });
    } else {
        let rel = with_fs(|fs| fs.fds.get(&fd).map(|i| i.rel.clone())).flatten();
        if let Some(rel) = rel {
            emit(Ev::Fs { op: "write".into(), path: rel, path2: String::new(), flags: String::new(), result, fault: fault.into() });
        }
    }
}

#[no_mangle]
pub unsafe extern "C" fn write(fd: c_int, buf: *const c_void, count: size_t) -> ssize_t {
    let f = real!(write: fn(c_int, *const c_void, size_t) -> ssize_t);
    if STATE.load(SeqCst) != ACTIVE {
        return f(fd, buf, count);
    }
    let (x, rel) = plan_transfer(fd, true, count);
    match x {
        Xfer::Pass => {
            let r = f(fd, buf, count);
            let e = get_errno();
            logged_write(fd, None, "", if r >= 0 { r as i64 } else { -(e as i64) });
            set_errno(e);
            r
        }
        Xfer::Short(n) => {
            let r = f(fd, buf, n.min(count));
            let e = get_errno();
            logged_write(fd, rel, "short", if r >= 0 { r as i64 } else { -(e as i64) });
            set_errno(e);
            r
        }
        Xfer::Eintr => {
            logged_write(fd, rel, "eintr", -(libc::EINTR as i64));
            set_errno(libc::EINTR);
            -1
        }
        Xfer::Errno(e) => {
            logged_write(fd, rel, "errno", -(e as i64));
            set_errno(e);
            -1
        }
    }
}

#[no_mangle]
pub unsafe extern "C" fn writev(fd: c_int, iov: *const libc::iovec, iovcnt: c_int) -> ssize_t {
    let f = real!(writev: fn(c_int, *const libc::iovec, c_int) -> ssize_t);
    if STATE.load(SeqCst) != ACTIVE || iovcnt <= 0 {
        return f(fd, iov, iovcnt);
    }
    let tracked = with_fs(|fs| fs.fds.contains_key(&fd)).unwrap_or(false);
    if !tracked {
        return f(fd, iov, iovcnt);
    }
    // writev may legally write only part of the request: write the first non-empty buffer through `write`
    for i in 0..iovcnt as usize {
        let v = &*iov.add(i);
        if v.iov_len > 0 {
            return write(fd, v.iov_base, v.iov_len);
        }
    }
    0
}

#[no_mangle]
pub unsafe extern "C" fn pwrite64(fd: c_int, buf: *const c_void, count: size_t, offset: libc::off64_t) -> ssize_t {
    let f = real!(pwrite64: fn(c_int, *const c_void, size_t, libc::off64_t) -> ssize_t);
    let r = f(fd, buf, count, offset);
    if STATE.load(SeqCst) == ACTIVE {
        let e = get_errno();
        logged_write(fd, None, "", if r >= 0 { r as i64 } else { -(e as i64) });
        set_errno(e);
    }
    r
}

// ------------------------------------------------------------------------------------------------------------------
// stat family, realpath
// ------------------------------------------------------------------------------------------------------------------

unsafe fn stat_fault(path: *const c_char, follow: bool, op: FsOp, name: &str) -> Option<c_int> {
    let r = with_fs(|fs| {
        let rel = classify(fs, path, follow)?;
        let a = fault_for(fs, op, &rel)?;
        Some((rel, a))
    })
    .flatten();
    if let Some((rel, FsAction::Errno { errno })) = r {
        emit(Ev::Fs { op: name.into(), path: rel, path2: String::new(), flags: String::new(), result: -(errno as i64), fault: "errno".into() });
        return Some(errno);
    }
    None
}

#[no_mangle]
pub unsafe extern "C" fn statx(dirfd: c_int, path: *const c_char, flags: c_int, mask: c_uint, buf: *mut libc::statx) -> c_int {
    let f = real!(statx: fn(c_int, *const c_char, c_int, c_uint, *mut libc::statx) -> c_int);
    if STATE.load(SeqCst) == ACTIVE && dirfd == libc::AT_FDCWD && !path.is_null() && *path != 0 {
        if let Some(e) = stat_fault(path, flags & libc::AT_SYMLINK_NOFOLLOW == 0, FsOp::Stat, "stat") {
            set_errno(e);
            return -1;
        }
    }
    f(dirfd, path, flags, mask, buf)
}

#[no_mangle]
pub unsafe extern "C" fn stat64(path: *const c_char, buf: *mut libc::stat64) -> c_int {
    let f = real!(stat64: fn(*const c_char, *mut libc::stat64) -> c_int);
    if STATE.load(SeqCst) == ACTIVE {
        if let Some(e) = stat_fault(path, true, FsOp::Stat, "stat") {
            set_errno(e);
            return -1;
        }
    }
    f(path, buf)
}

#[no_mangle]
pub unsafe extern "C" fn lstat64(path: *const c_char, buf: *mut libc::stat64) -> c_int {
    let f = real!(lstat64: fn(*const c_char, *mut libc::stat64) -> c_int);
    if STATE.load(SeqCst) == ACTIVE {
        if let Some(e) = stat_fault(path, false, FsOp::Stat, "lstat") {
            set_errno(e);
            return -1;
        }
    }
    f(path, buf)
}

#[no_mangle]
pub unsafe extern "C" fn realpath(path: *const c_char, resolved: *mut c_char) -> *mut c_char {
    let f = real!(realpath: fn(*const c_char, *mut c_char) -> *mut c_char);
    if STATE.load(SeqCst) == ACTIVE {
        if let Some(e) = stat_fault(path, true, FsOp::Realpath, "realpath") {
            set_errno(e);
            return std::ptr::null_mut();
        }
    }
    f(path, resolved)
}

// ------------------------------------------------------------------------------------------------------------------
// directories
// ------------------------------------------------------------------------------------------------------------------

#[no_mangle]
pub unsafe extern "C" fn opendir(path: *const c_char) -> *mut libc::DIR {
    let f = real!(opendir: fn(*const c_char) -> *mut libc::DIR);
    if STATE.load(SeqCst) != ACTIVE {
        return f(path);
    }
    let r = with_fs(|fs| {
        let rel = classify(fs, path, true)?;
        let a = fault_for(fs, FsOp::Opendir, &rel);
        Some((rel, a))
    })
    .flatten();
    let Some((rel, fault)) = r else {
        return f(path);
    };
    if let Some(FsAction::Errno { errno }) = fault {
        emit(Ev::Fs { op: "opendir".into(), path: rel, path2: String::new(), flags: String::new(), result: -(errno as i64), fault: "errno".into() });
        set_errno(errno);
        return std::ptr::null_mut();
    }
    let d = f(path);
    let e = get_errno();
    if !d.is_null() {
        with_fs(|fs| {
            fs.dirs.insert(d as usize, DirInfo { rel: rel.clone(), delivered: 0 });
        });
    }
    emit(Ev::Fs { op: "opendir".into(), path: rel, path2: String::new(), flags: String::new(), result: if d.is_null() { -(e as i64) } else { 0 }, fault: String::new() });
    set_errno(e);
    d
}

#[no_mangle]
pub unsafe extern "C" fn readdir64(dir: *mut libc::DIR) -> *mut libc::dirent64 {
    let f = real!(readdir64: fn(*mut libc::DIR) -> *mut libc::dirent64);
    if STATE.load(SeqCst) != ACTIVE {
        return f(dir);
    }
    // "." and ".." are delivered by the kernel as well; count only real entries towards `nth`
    let fault = with_fs(|fs| {
        let info = fs.dirs.get(&(dir as usize))?;
        let rel = info.rel.clone();
        let delivered = info.delivered;
        for (rule, _) in fs.faults.iter_mut() {
            if rule.op == FsOp::Readdir && rule.path == rel && rule.nth == delivered + 1 {
                if let FsAction::Errno { errno } = rule.action {
                    // fire once
                    rule.nth = u32::MAX;
                    return Some((rel, errno));
                }
            }
        }
        None
    })
    .flatten();
    if let Some((rel, errno)) = fault {
        emit(Ev::Fs { op: "readdir".into(), path: rel, path2: String::new(), flags: String::new(), result: -(errno as i64), fault: "errno".into() });
        set_errno(errno);
        return std::ptr::null_mut();
    }
    let e = f(dir);
    if !e.is_null() {
        let name = CStr::from_ptr((*e).d_name.as_ptr());
        let b = name.to_bytes();
        if b != b"." && b != b".." {
            with_fs(|fs| {
                if let Some(i) = fs.dirs.get_mut(&(dir as usize)) {
                    i.delivered += 1;
                }
            });
        }
    }
    e
}

#[no_mangle]
pub unsafe extern "C" fn closedir(dir: *mut libc::DIR) -> c_int {
    with_fs(|fs| {
        fs.dirs.remove(&(dir as usize));
    });
    (real!(closedir: fn(*mut libc::DIR) -> c_int))(dir)
}

// ------------------------------------------------------------------------------------------------------------------
// mutations: logged as effects, with optional faults
// ------------------------------------------------------------------------------------------------------------------

unsafe fn two_path_op(name: &str, op: Option<FsOp>, a: *const c_char, b: *const c_char, call: impl FnOnce() -> c_int) -> c_int {
    if STATE.load(SeqCst) != ACTIVE {
        return call();
    }
    let r = with_fs(|fs| {
        let ra = classify(fs, a, false);
        let rb = if b.is_null() { None } else { classify(fs, b, false) };
        if ra.is_none() && rb.is_none() {
            return None;
        }
        let fault = match (&op, &rb.clone().or(ra.clone())) {
            (Some(o), Some(target)) => fault_for(fs, o.clone(), target),
            _ => None,
        };
        Some((ra.unwrap_or_else(|| "<outside>".into()), rb.unwrap_or_default(), fault))
    })
    .flatten();
    let Some((ra, rb, fault)) = r else {
        return call();
    };
    if let Some(FsAction::Errno { errno }) = fault {
        emit(Ev::Fs { op: name.into(), path: ra, path2: rb, flags: String::new(), result: -(errno as i64), fault: "errno".into() });
        set_errno(errno);
        return -1;
    }
    let res = call();
    let e = get_errno();
    emit(Ev::Fs { op: name.into(), path: ra, path2: rb, flags: String::new(), result: if res == 0 { 0 } else { -(e as i64) }, fault: String::new() });
    set_errno(e);
    res
}

#[no_mangle]
pub unsafe extern "C" fn rename(old: *const c_char, new: *const c_char) -> c_int {
    let f = real!(rename: fn(*const c_char, *const c_char) -> c_int);
    two_path_op("rename", Some(FsOp::Rename), old, new, || f(old, new))
}

#[no_mangle]
pub unsafe extern "C" fn renameat(od: c_int, old: *const c_char, nd: c_int, new: *const c_char) -> c_int {
    let f = real!(renameat: fn(c_int, *const c_char, c_int, *const c_char) -> c_int);
    if od != libc::AT_FDCWD || nd != libc::AT_FDCWD {
        return f(od, old, nd, new);
    }
    two_path_op("rename", Some(FsOp::Rename), old, new, || f(od, old, nd, new))
}

#[no_mangle]
pub unsafe extern "C" fn unlink(path: *const c_char) -> c_int {
    let f = real!(unlink: fn(*const c_char) -> c_int);
    two_path_op("unlink", None, path, std::ptr::null(), || f(path))
}

#[no_mangle]
pub unsafe extern "C" fn rmdir(path: *const c_char) -> c_int {
    let f = real!(rmdir: fn(*const c_char) -> c_int);
    two_path_op("rmdir", None, path, std::ptr::null(), || f(path))
}

#[no_mangle]
pub unsafe extern "C" fn mkdir(path: *const c_char, mode: mode_t) -> c_int {
    let f = real!(mkdir: fn(*const c_char, mode_t) -> c_int);
    two_path_op("mkdir", Some(FsOp::Mkdir), path, std::ptr::null(), || f(path, mode))
}

#[no_mangle]
pub unsafe extern "C" fn symlink(target: *const c_char, linkpath: *const c_char) -> c_int {
    let f = real!(symlink: fn(*const c_char, *const c_char) -> c_int);
    two_path_op("symlink", None, linkpath, std::ptr::null(), || f(target, linkpath))
}

#[no_mangle]
pub unsafe extern "C" fn link(old: *const c_char, new: *const c_char) -> c_int {
    let f = real!(link: fn(*const c_char, *const c_char) -> c_int);
    two_path_op("link", None, old, new, || f(old, new))
}

#[no_mangle]
pub unsafe extern "C" fn ftruncate64(fd: c_int, len: libc::off64_t) -> c_int {
    let f = real!(ftruncate64: fn(c_int, libc::off64_t) -> c_int);
    let r = f(fd, len);
    if STATE.load(SeqCst) == ACTIVE {
        let e = get_errno();
        let rel = with_fs(|fs| fs.fds.get(&fd).map(|i| i.rel.clone())).flatten();
        if let Some(rel) = rel {
            emit(Ev::Fs { op: "truncate".into(), path: rel, path2: String::new(), flags: String::new(), result: if r == 0 { len } else { -(e as i64) }, fault: String::new() });
        }
        set_errno(e);
    }
    r
}

// ------------------------------------------------------------------------------------------------------------------
// getrandom: keys every RandomState of the process
// ------------------------------------------------------------------------------------------------------------------

static RANDOM_STATE: AtomicU64 = AtomicU64::new(0);
static RANDOM_MODE: AtomicU8 = AtomicU8::new(0); // 0 unknown, 1 seeded, 2 real

unsafe fn random_mode() -> u8 {
    let m = RANDOM_MODE.load(SeqCst);
    if m != 0 {
        return m;
    }
    // Read straight from the environment: this can be called before anything else is initialised.
    let v = libc::getenv(b"SIM_HASH_SEED\0".as_ptr() as *const c_char);
    if v.is_null() {
        RANDOM_MODE.store(2, SeqCst);
        return 2;
    }
    let mut seed: u64 = 0;
    let mut p = v;
    while *p != 0 {
        let c = *p as u8;
        if c.is_ascii_digit() {
            seed = seed.wrapping_mul(10).wrapping_add((c - b'0') as u64);
        }
        p = p.add(1);
    }
    RANDOM_STATE.store(seed ^ 0x9E37_79B9_7F4A_7C15, SeqCst);
    RANDOM_MODE.store(1, SeqCst);
    1
}

#[no_mangle]
pub unsafe extern "C" fn getrandom(buf: *mut c_void, buflen: size_t, flags: c_uint) -> ssize_t {
    if random_mode() == 2 {
        let f = real!(getrandom: fn(*mut c_void, size_t, c_uint) -> ssize_t);
        return f(buf, buflen, flags);
    }
    let mut state = RANDOM_STATE.load(SeqCst);
    let out = buf as *mut u8;
    let mut i = 0;
    while i < buflen {
        let x = refcodec::util::splitmix64(&mut state).to_le_bytes();
        let mut j = 0;
        while j < 8 && i < buflen {
            *out.add(i) = x[j];
            i += 1;
            j += 1;
        }
    }
    RANDOM_STATE.store(state, SeqCst);
    buflen as ssize_t
}

/// Keeps the symbols above alive in every link (called from the crate root).
pub fn anchor() -> usize {
    open64 as *const () as usize ^ read as *const () as usize ^ getrandom as *const () as usize ^ kernel::digest_of(b"") as usize
}
