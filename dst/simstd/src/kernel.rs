//! The simulation kernel: simulated generator processes, bounded pipes, a seeded scheduler, the trace.
//!
//! One real thread (the compiler) plus N simulated processes that only become observable at seam calls, so it is
//! enough to interleave there. Every decision is a *choice* drawn from "explicit list, then PRNG": one integer (and
//! the scenario) determines the whole execution, and a recorded choice list replays it without the PRNG.

use crate::raw;
use refcodec::schema::{request_completeness, Completeness};
use refcodec::util::{hex, Fnv, Rng};
use simproto::*;
use std::collections::VecDeque;
use std::sync::Mutex;

pub struct Pipe {
    buf: VecDeque<u8>,
    cap: usize,
    reader_open: bool,
    writer_open: bool,
}

impl Pipe {
    fn new(cap: usize) -> Pipe {
        Pipe { buf: VecDeque::new(), cap: cap.max(1), reader_open: true, writer_open: true }
    }
    fn space(&self) -> usize {
        self.cap.saturating_sub(self.buf.len())
    }
    fn eof(&self) -> bool {
        self.buf.is_empty() && !self.writer_open
    }
}

#[derive(Clone, Copy, PartialEq, Eq, Debug)]
pub enum Endpoint {
    Pipe(usize),
    Null,
    Inherit,
    Closed,
}

struct Proc {
    program: String,
    script: Vec<ScriptOp>,
    pc: usize,
    /// progress inside the current op (bytes written / read so far)
    progress: usize,
    request_buf: Vec<u8>,
    status: Option<i32>,
    reaped: bool,
    stdin: Endpoint,
    stdout: Endpoint,
    stderr: Endpoint,
    /// everything the compiler managed to put into this process' stdin pipe
    accepted: Vec<u8>,
    stdin_closed_logged: bool,
    collect_errno: Option<i32>,
    known_blocked: bool,
    /// output drained so far by an unfinished wait_with_output
    collected_out: Vec<u8>,
    collected_err: Vec<u8>,
}

pub struct Kernel {
    sim: Sim,
    procs: Vec<Proc>,
    pipes: Vec<Pipe>,
    explicit: VecDeque<u64>,
    rng: Rng,
    steps: u64,
    seq: u64,
    spawned_per_program: std::collections::BTreeMap<String, usize>,
    pub active: bool,
    /// incremented whenever the state of a pipe or a process changes (used to notice progress by other threads)
    pub progress: u64,
    /// largest number of real threads seen at a blocking seam call (1 for the shipped, single-threaded compiler)
    pub max_threads: usize,
    /// how many seeded delays were handed out per (subject, operation) - see `jitter_us`
    jitter_counts: std::collections::BTreeMap<(usize, u8), u64>,
}

/// Outcome of one attempt at a blocking compiler-side operation.
pub enum Attempt<R> {
    Done(R),
    /// the operation cannot complete and no simulated generator can take a step
    Stuck { progress: u64, detail: String },
}

pub static KERNEL: Mutex<Option<Kernel>> = Mutex::new(None);

enum Step {
    Progress,
    Blocked,
    Exited,
}

pub fn trace(seq: &mut u64, ev: Ev) {
    *seq += 1;
    let line = serde_json::to_string(&Event { seq: *seq, kind: ev }).unwrap_or_default();
    raw::trace_write(line.as_bytes());
}

impl Kernel {
    /// A compiler that runs threads of its own interleaves them as the OS pleases; the simulator cannot schedule
    /// them, but it can lean on them: every blocking seam call of a multi-threaded compiler is first held back for
    /// a seeded 0..3 ms, keyed by WHAT the call is about (which generator, which operation, how many-th time) - not
    /// by which thread makes it, which would itself be a race. Delays of this size dominate the natural jitter, so
    /// completion orders follow the seed closely, and another seed gives another order.
    pub fn jitter_us(&mut self, subject: usize, op: u8) -> u64 {
        let n = self.jitter_counts.entry((subject, op)).or_default();
        *n += 1;
        let mut f = refcodec::util::Fnv::default();
        f.update_u64(self.sim.choice_seed ^ 0x7177_E2);
        f.update_u64(subject as u64);
        f.update_u64(op as u64);
        f.update_u64(*n);
        f.0 % 3000
    }

    pub fn new(sim: Sim) -> Kernel {
        let explicit = sim.choices.iter().copied().collect();
        let rng = Rng::new(sim.choice_seed ^ 0x51AB_1E5E_ED00_0001);
        Kernel {
            sim,
            procs: Vec::new(),
            pipes: Vec::new(),
            explicit,
            rng,
            steps: 0,
            seq: 0,
            spawned_per_program: Default::default(),
            active: true,
            progress: 0,
            max_threads: 1,
            jitter_counts: Default::default(),
        }
    }

    pub fn emit(&mut self, ev: Ev) {
        trace(&mut self.seq, ev);
    }

    /// A value in 0..bound. 0 always means "the plain thing" (no fault / compiler first / lowest id).
    pub fn choose(&mut self, site: &str, bound: u64) -> u64 {
        if bound <= 1 {
            return 0;
        }
        let value = match self.explicit.pop_front() {
            Some(v) => v % bound,
            None => self.rng.below(bound),
        };
        self.emit(Ev::Choice { site: site.to_owned(), bound, value });
        value
    }

    pub fn die_hang(&mut self, detail: String) -> ! {
        self.emit(Ev::Hang { detail });
        raw::exit_now(EXIT_HANG)
    }

    fn tick(&mut self) {
        self.steps += 1;
        if self.steps > self.sim.step_budget {
            let steps = self.steps;
            self.emit(Ev::Budget { steps });
            raw::exit_now(EXIT_BUDGET)
        }
    }

    fn unblock_all(&mut self) {
        self.progress += 1;
        for p in self.procs.iter_mut() {
            p.known_blocked = false;
        }
    }

    fn runnable(&self) -> Vec<usize> {
        (0..self.procs.len()).filter(|i| self.procs[*i].status.is_none() && !self.procs[*i].known_blocked).collect()
    }

    fn close_endpoint_write(&mut self, e: Endpoint) {
        if let Endpoint::Pipe(p) = e {
            self.pipes[p].writer_open = false;
        }
    }

    fn close_endpoint_read(&mut self, e: Endpoint) {
        if let Endpoint::Pipe(p) = e {
            self.pipes[p].reader_open = false;
            // data nobody will ever read
            self.pipes[p].buf.clear();
        }
    }

    fn exit_proc(&mut self, g: usize, status: i32) {
        let (si, so, se) = (self.procs[g].stdin, self.procs[g].stdout, self.procs[g].stderr);
        let pending = match si {
            Endpoint::Pipe(p) => self.pipes[p].buf.len(),
            _ => 0,
        };
        self.close_endpoint_read(si);
        self.close_endpoint_write(so);
        self.close_endpoint_write(se);
        let p = &mut self.procs[g];
        p.stdin = Endpoint::Closed;
        p.stdout = Endpoint::Closed;
        p.stderr = Endpoint::Closed;
        p.status = Some(status);
        self.emit(Ev::GenExit { gen: g, status, pending_stdin: pending });
        self.unblock_all();
    }

    /// Reads up to `max` bytes from the process' stdin. None = would block.
    fn gen_read(&mut self, g: usize, max: usize) -> Option<Vec<u8>> {
        match self.procs[g].stdin {
            Endpoint::Pipe(p) => {
                let pipe = &mut self.pipes[p];
                if pipe.buf.is_empty() {
                    if pipe.writer_open {
                        return None;
                    }
                    return Some(Vec::new()); // EOF
                }
                let n = max.min(pipe.buf.len());
                let out: Vec<u8> = pipe.buf.drain(..n).collect();
                Some(out)
            }
            _ => Some(Vec::new()),
        }
    }

    /// Writes as much as fits. Returns None = would block, Some(Err) = SIGPIPE, Some(Ok(n)).
    fn gen_write(&mut self, g: usize, fd: u8, data: &[u8]) -> Option<Result<usize, ()>> {
        let e = if fd == 2 { self.procs[g].stderr } else { self.procs[g].stdout };
        match e {
            Endpoint::Pipe(p) => {
                let pipe = &mut self.pipes[p];
                if !pipe.reader_open {
                    return Some(Err(()));
                }
                let n = pipe.space().min(data.len());
                if n == 0 && !data.is_empty() {
                    return None;
                }
                pipe.buf.extend(&data[..n]);
                Some(Ok(n))
            }
            Endpoint::Inherit => {
                if fd == 2 && !data.is_empty() {
                    // the compiler will never see these bytes in what it collects: say so in the trace
                    self.emit(Ev::Gen { gen: g, what: "stderr-not-piped".into() });
                }
                raw::write_all_fd(if fd == 2 { 2 } else { 1 }, data);
                Some(Ok(data.len()))
            }
            Endpoint::Null => {
                if fd == 2 && !data.is_empty() {
                    self.emit(Ev::Gen { gen: g, what: "stderr-not-piped".into() });
                }
                Some(Ok(data.len()))
            }
            // a descriptor the script closed itself (EBADF, which scripts ignore)
            Endpoint::Closed => Some(Ok(data.len())),
        }
    }

    fn fail_request(&mut self, g: usize, why: &str) {
        // what a parsing generator does with a request it cannot read
        let msg = format!("generator: cannot decode request: {why}\n");
        let _ = self.gen_write(g, 2, msg.as_bytes());
        self.emit(Ev::Gen { gen: g, what: format!("request-undecodable:{why}") });
        self.exit_proc(g, 70 << 8);
    }

    fn step(&mut self, g: usize) -> Step {
        self.tick();
        if self.procs[g].status.is_some() {
            return Step::Exited;
        }
        if self.procs[g].pc >= self.procs[g].script.len() {
            self.exit_proc(g, 0);
            return Step::Exited;
        }
        let op = self.procs[g].script[self.procs[g].pc].clone();
        let advance = |k: &mut Kernel| {
            k.procs[g].pc += 1;
            k.procs[g].progress = 0;
        };
        match op {
            ScriptOp::ReadRequest => match self.gen_read(g, 1 << 16) {
                None => Step::Blocked,
                Some(bytes) => {
                    let eof = bytes.is_empty();
                    self.procs[g].request_buf.extend_from_slice(&bytes);
                    match request_completeness(&self.procs[g].request_buf) {
                        Completeness::Complete(n) => {
                            let total = self.procs[g].request_buf.len();
                            self.emit(Ev::Gen { gen: g, what: format!("request-complete:{n}/{total}") });
                            advance(self);
                            Step::Progress
                        }
                        Completeness::Malformed => {
                            self.fail_request(g, "malformed");
                            Step::Exited
                        }
                        Completeness::NeedMore => {
                            if eof {
                                self.fail_request(g, "truncated");
                                Step::Exited
                            } else {
                                self.unblock_all();
                                Step::Progress
                            }
                        }
                    }
                }
            },
            ScriptOp::Read { n } => match self.gen_read(g, n) {
                None => Step::Blocked,
                Some(_) => {
                    advance(self);
                    self.unblock_all();
                    Step::Progress
                }
            },
            ScriptOp::ReadExact { n } => {
                let left = n - self.procs[g].progress;
                if left == 0 {
                    advance(self);
                    return Step::Progress;
                }
                match self.gen_read(g, left) {
                    None => Step::Blocked,
                    Some(b) => {
                        if b.is_empty() {
                            advance(self); // EOF
                        } else {
                            self.procs[g].progress += b.len();
                            if self.procs[g].progress >= n {
                                advance(self);
                            }
                        }
                        self.unblock_all();
                        Step::Progress
                    }
                }
            }
            ScriptOp::ReadToEof => match self.gen_read(g, usize::MAX) {
                None => Step::Blocked,
                Some(b) => {
                    if b.is_empty() {
                        advance(self);
                    }
                    self.unblock_all();
                    Step::Progress
                }
            },
            ScriptOp::Write { fd, hex: h } => {
                let data = refcodec::util::unhex(&h).unwrap_or_default();
                self.step_write(g, fd, &data)
            }
            ScriptOp::WriteFill { fd, n, byte } => {
                let done = self.procs[g].progress;
                let chunk = vec![byte; (n - done).min(1 << 16)];
                // step_write works on "the rest of the data": emulate with a window
                let r = self.gen_write(g, fd, &chunk);
                match r {
                    None => Step::Blocked,
                    Some(Err(())) => {
                        self.emit(Ev::Gen { gen: g, what: "sigpipe".into() });
                        self.exit_proc(g, 13);
                        Step::Exited
                    }
                    Some(Ok(k)) => {
                        self.procs[g].progress += k;
                        if self.procs[g].progress >= n {
                            self.procs[g].pc += 1;
                            self.procs[g].progress = 0;
                        }
                        self.unblock_all();
                        Step::Progress
                    }
                }
            }
            ScriptOp::Close { fd } => {
                match fd {
                    0 => {
                        let e = self.procs[g].stdin;
                        self.close_endpoint_read(e);
                        self.procs[g].stdin = Endpoint::Closed;
                    }
                    2 => {
                        let e = self.procs[g].stderr;
                        self.close_endpoint_write(e);
                        self.procs[g].stderr = Endpoint::Closed;
                    }
                    _ => {
                        let e = self.procs[g].stdout;
                        self.close_endpoint_write(e);
                        self.procs[g].stdout = Endpoint::Closed;
                    }
                }
                self.emit(Ev::Gen { gen: g, what: format!("close:{fd}") });
                advance(self);
                self.unblock_all();
                Step::Progress
            }
            ScriptOp::Exit { code } => {
                self.exit_proc(g, (code & 0xff) << 8);
                Step::Exited
            }
            ScriptOp::Die { signal } => {
                self.exit_proc(g, signal & 0x7f);
                Step::Exited
            }
            ScriptOp::Yield { n } => {
                self.procs[g].progress += 1;
                if self.procs[g].progress >= n {
                    advance(self);
                }
                Step::Progress
            }
        }
    }

    fn step_write(&mut self, g: usize, fd: u8, data: &[u8]) -> Step {
        let done = self.procs[g].progress;
        if done >= data.len() {
            self.procs[g].pc += 1;
            self.procs[g].progress = 0;
            return Step::Progress;
        }
        match self.gen_write(g, fd, &data[done..]) {
            None => Step::Blocked,
            Some(Err(())) => {
                self.emit(Ev::Gen { gen: g, what: "sigpipe".into() });
                self.exit_proc(g, 13);
                Step::Exited
            }
            Some(Ok(k)) => {
                self.procs[g].progress += k;
                if self.procs[g].progress >= data.len() {
                    self.procs[g].pc += 1;
                    self.procs[g].progress = 0;
                }
                self.unblock_all();
                Step::Progress
            }
        }
    }

    /// Lets one runnable generator take a step. false = nobody can move.
    fn step_someone(&mut self, site: &str) -> bool {
        loop {
            let r = self.runnable();
            if r.is_empty() {
                return false;
            }
            let pick = r[self.choose(site, r.len() as u64) as usize];
            match self.step(pick) {
                Step::Blocked => {
                    self.procs[pick].known_blocked = true;
                    continue;
                }
                _ => return true,
            }
        }
    }

    /// Scheduling point on entry to every seam call.
    pub fn pre(&mut self, site: &str) {
        let k = match self.sim.sched {
            Sched::CompilerFirst => 0,
            Sched::GeneratorsEager => u64::MAX,
            Sched::Random => {
                // 0 with probability 1/2, else geometric-ish
                match self.choose("pre-steps", 8) {
                    0..=3 => 0,
                    4 => 1,
                    5 => 2,
                    6 => 8,
                    _ => 64,
                }
            }
        };
        let mut n = 0;
        while n < k {
            if !self.step_someone(site) {
                break;
            }
            n += 1;
        }
    }

    // -------------------------------------------------------------------------------------------------------------
    // Compiler-side operations
    // -------------------------------------------------------------------------------------------------------------

    pub fn spawn(&mut self, program: &str, args: Vec<String>, stdio: [crate::process::StdioKind; 3]) -> Result<usize, i32> {
        self.pre("spawn");
        let idx = self.spawned_per_program.entry(program.to_owned()).or_insert(0);
        let nth = *idx;
        *idx += 1;
        let gen = self.sim.generators.get(program).and_then(|v| v.get(nth).or(v.last())).cloned();
        let g = self.procs.len();
        let kinds: Vec<String> = stdio.iter().map(|s| format!("{s:?}").to_lowercase()).collect();
        let Some(gen) = gen else {
            // nothing by that name in the simulated world
            self.emit(Ev::Spawn { gen: usize::MAX, program: program.to_owned(), args, stdin: kinds[0].clone(), stdout: kinds[1].clone(), stderr: kinds[2].clone(), result: -libc::ENOENT, label: "unknown-program".into() });
            return Err(libc::ENOENT);
        };
        if let Some(errno) = gen.spawn_errno {
            self.emit(Ev::Spawn { gen: usize::MAX, program: program.to_owned(), args, stdin: kinds[0].clone(), stdout: kinds[1].clone(), stderr: kinds[2].clone(), result: -errno, label: gen.label.clone() });
            return Err(errno);
        }
        let mk = |k: &mut Kernel, kind: crate::process::StdioKind, cap: usize| -> Endpoint {
            match kind {
                crate::process::StdioKind::Piped => {
                    k.pipes.push(Pipe::new(cap));
                    Endpoint::Pipe(k.pipes.len() - 1)
                }
                crate::process::StdioKind::Null => Endpoint::Null,
                crate::process::StdioKind::Inherit => Endpoint::Inherit,
            }
        };
        let stdin = mk(self, stdio[0], gen.stdin_cap);
        let stdout = mk(self, stdio[1], gen.stdout_cap);
        let stderr = mk(self, stdio[2], gen.stderr_cap);
        self.procs.push(Proc {
            program: program.to_owned(),
            script: gen.script.clone(),
            pc: 0,
            progress: 0,
            request_buf: Vec::new(),
            status: None,
            reaped: false,
            stdin,
            stdout,
            stderr,
            accepted: Vec::new(),
            stdin_closed_logged: false,
            collect_errno: gen.collect_errno,
            known_blocked: false,
            collected_out: Vec::new(),
            collected_err: Vec::new(),
        });
        self.emit(Ev::Spawn { gen: g, program: program.to_owned(), args, stdin: kinds[0].clone(), stdout: kinds[1].clone(), stderr: kinds[2].clone(), result: g as i32, label: gen.label });
        Ok(g)
    }

    pub fn note_compiler_sigpipe(&mut self) {
        self.emit(Ev::Gen { gen: usize::MAX, what: "compiler-gets-sigpipe-with-default-disposition".into() });
    }

    pub fn endpoints(&self, g: usize) -> (Endpoint, Endpoint, Endpoint) {
        (self.procs[g].stdin, self.procs[g].stdout, self.procs[g].stderr)
    }

    /// `write` on the compiler's end of a generator's stdin.
    pub fn stdin_write(&mut self, g: usize, pipe: usize, buf: &[u8], first_attempt: bool) -> Attempt<Result<usize, i32>> {
        use Attempt::Done;
        if first_attempt {
            self.pre("stdin-write");
        }
        if buf.is_empty() {
            return Done(Ok(0));
        }
        let mut logged_block = false;
        loop {
            if !self.pipes[pipe].reader_open {
                let total = self.procs[g].accepted.len();
                self.emit(Ev::StdinWrite { gen: g, requested: buf.len(), result: -(libc::EPIPE as i64), total, fault: String::new() });
                return Done(Err(libc::EPIPE));
            }
            let space = self.pipes[pipe].space();
            if space > 0 {
                let mut fault = String::new();
                if self.sim.buggify.eintr_pipe_write && self.choose("stdin-eintr", 8) == 1 {
                    let total = self.procs[g].accepted.len();
                    self.emit(Ev::StdinWrite { gen: g, requested: buf.len(), result: -(libc::EINTR as i64), total, fault: "eintr".into() });
                    return Done(Err(libc::EINTR));
                }
                let mut n = space.min(buf.len());
                if self.sim.buggify.short_pipe_write && n > 1 {
                    // 0 = full write; otherwise a shorter, still legal, count
                    let c = self.choose("stdin-short", 4);
                    if c != 0 {
                        n = match c {
                            1 => 1,
                            2 => n / 2,
                            _ => n - 1,
                        }
                        .max(1);
                        fault = "short".into();
                    }
                }
                self.pipes[pipe].buf.extend(&buf[..n]);
                self.procs[g].accepted.extend_from_slice(&buf[..n]);
                let total = self.procs[g].accepted.len();
                self.emit(Ev::StdinWrite { gen: g, requested: buf.len(), result: n as i64, total, fault });
                self.unblock_all();
                return Done(Ok(n));
            }
            // pipe full: the compiler blocks, generators run
            if !logged_block {
                self.emit(Ev::Blocked { gen: g, op: "stdin-write".into() });
                logged_block = true;
            }
            if !self.step_someone("blocked-stdin-write") {
                let d = format!("compiler blocked writing {} bytes to the stdin of generator {} ('{}'): the pipe is full and no generator can take a step", buf.len(), g, self.procs[g].program);
                return Attempt::Stuck { progress: self.progress, detail: d };
            }
        }
    }

    pub fn stdin_close(&mut self, g: usize, pipe: usize) {
        if !self.pipes[pipe].writer_open {
            return;
        }
        self.pipes[pipe].writer_open = false;
        if !self.procs[g].stdin_closed_logged {
            self.procs[g].stdin_closed_logged = true;
            let total = self.procs[g].accepted.len();
            let h = hex(&self.procs[g].accepted);
            self.emit(Ev::StdinClose { gen: g, total, hex: h, at_exit: false });
        }
        self.unblock_all();
    }

    /// Blocking read on the compiler's end of a generator's stdout / stderr.
    pub fn pipe_read(&mut self, g: usize, fd: u8, pipe: usize, buf: &mut [u8], first_attempt: bool) -> Attempt<Result<usize, i32>> {
        use Attempt::Done;
        if first_attempt {
            self.pre("pipe-read");
        }
        if buf.is_empty() {
            return Done(Ok(0));
        }
        let mut logged_block = false;
        loop {
            if !self.pipes[pipe].buf.is_empty() {
                let n = buf.len().min(self.pipes[pipe].buf.len());
                for (i, b) in self.pipes[pipe].buf.drain(..n).enumerate() {
                    buf[i] = b;
                }
                let h = hex(&buf[..n]);
                self.emit(Ev::PipeRead { gen: g, fd, requested: buf.len(), result: n as i64, hex: h });
                self.unblock_all();
                return Done(Ok(n));
            }
            if !self.pipes[pipe].writer_open {
                self.emit(Ev::PipeRead { gen: g, fd, requested: buf.len(), result: 0, hex: String::new() });
                return Done(Ok(0));
            }
            if !logged_block {
                self.emit(Ev::Blocked { gen: g, op: format!("read-fd{fd}") });
                logged_block = true;
            }
            if !self.step_someone("blocked-pipe-read") {
                let d = format!("compiler blocked reading fd {} of generator {} ('{}'): nothing to read, the write end is open and no generator can take a step", fd, g, self.procs[g].program);
                return Attempt::Stuck { progress: self.progress, detail: d };
            }
        }
    }

    pub fn pipe_close_read(&mut self, pipe: usize) {
        self.pipes[pipe].reader_open = false;
        self.pipes[pipe].buf.clear();
        self.unblock_all();
    }

    pub fn kill(&mut self, g: usize) -> Result<(), i32> {
        self.pre("kill");
        self.emit(Ev::Kill { gen: g });
        if self.procs[g].status.is_none() {
            self.exit_proc(g, libc::SIGKILL);
        }
        Ok(())
    }

    pub fn try_wait(&mut self, g: usize) -> Result<Option<i32>, i32> {
        self.pre("try-wait");
        // a compiler that polls gives real processes time to run between polls, whatever the scheduler mode
        if self.procs[g].status.is_none() {
            self.step_someone("poll");
        }
        let st = self.procs[g].status;
        if st.is_some() {
            self.procs[g].reaped = true;
        }
        self.emit(Ev::Wait { gen: g, op: "try_wait".into(), status: st.unwrap_or(-1), stdout_len: 0, stderr_len: 0, stdout_hex: String::new(), stderr_hex: String::new(), result: 0 });
        Ok(st)
    }

    /// `wait`: blocks until the process has exited; does NOT drain its output pipes.
    pub fn wait(&mut self, g: usize, first_attempt: bool) -> Attempt<Result<i32, i32>> {
        if first_attempt {
            self.pre("wait");
        }
        let mut logged_block = false;
        while self.procs[g].status.is_none() {
            if !logged_block {
                self.emit(Ev::Blocked { gen: g, op: "wait".into() });
                logged_block = true;
            }
            if !self.step_someone("blocked-wait") {
                let d = format!("compiler blocked in wait() for generator {} ('{}') which cannot take a step (script op #{})", g, self.procs[g].program, self.procs[g].pc);
                return Attempt::Stuck { progress: self.progress, detail: d };
            }
        }
        self.procs[g].reaped = true;
        let status = self.procs[g].status.unwrap();
        self.emit(Ev::Wait { gen: g, op: "wait".into(), status, stdout_len: 0, stderr_len: 0, stdout_hex: String::new(), stderr_hex: String::new(), result: 0 });
        Attempt::Done(Ok(status))
    }

    /// `wait_with_output`: stdin is already closed by the caller; drains both pipes concurrently, then reaps.
    pub fn wait_with_output(&mut self, g: usize, out_pipe: Option<usize>, err_pipe: Option<usize>, first_attempt: bool) -> Attempt<Result<(i32, Vec<u8>, Vec<u8>), i32>> {
        if first_attempt {
            self.pre("wait-with-output");
        }
        let mut out = std::mem::take(&mut self.procs[g].collected_out);
        let mut err = std::mem::take(&mut self.procs[g].collected_err);
        let mut logged_block = false;
        loop {
            let mut moved = false;
            for (p, sink) in [(out_pipe, &mut out), (err_pipe, &mut err)] {
                if let Some(p) = p {
                    if !self.pipes[p].buf.is_empty() {
                        sink.extend(self.pipes[p].buf.drain(..));
                        moved = true;
                    }
                }
            }
            if moved {
                self.unblock_all();
            }
            let out_done = out_pipe.map(|p| self.pipes[p].eof()).unwrap_or(true);
            let err_done = err_pipe.map(|p| self.pipes[p].eof()).unwrap_or(true);
            if out_done && err_done && self.procs[g].status.is_some() {
                break;
            }
            if !logged_block {
                self.emit(Ev::Blocked { gen: g, op: "wait-with-output".into() });
                logged_block = true;
            }
            if !self.step_someone("blocked-collect") {
                let d = format!("compiler blocked collecting generator {} ('{}') which cannot take a step (script op #{})", g, self.procs[g].program, self.procs[g].pc);
                self.procs[g].collected_out = out;
                self.procs[g].collected_err = err;
                return Attempt::Stuck { progress: self.progress, detail: d };
            }
        }
        for p in [out_pipe, err_pipe].into_iter().flatten() {
            self.pipes[p].reader_open = false;
        }
        self.procs[g].reaped = true;
        let status = self.procs[g].status.unwrap();
        let result = self.procs[g].collect_errno.unwrap_or(0);
        self.emit(Ev::Wait { gen: g, op: "wait_with_output".into(), status, stdout_len: out.len(), stderr_len: err.len(), stdout_hex: hex(&out), stderr_hex: hex(&err), result: -result });
        if result != 0 {
            return Attempt::Done(Err(result));
        }
        Attempt::Done(Ok((status, out, err)))
    }

    pub fn finish(&mut self) {
        let unreaped: Vec<usize> = (0..self.procs.len()).filter(|g| !self.procs[*g].reaped).collect();
        // stdin captures of processes whose stdin was never closed
        for g in 0..self.procs.len() {
            if !self.procs[g].stdin_closed_logged {
                self.procs[g].stdin_closed_logged = true;
                let total = self.procs[g].accepted.len();
                let h = hex(&self.procs[g].accepted);
                self.emit(Ev::StdinClose { gen: g, total, hex: h, at_exit: true });
            }
        }
        let steps = self.steps;
        let max_threads = self.max_threads;
        self.emit(Ev::End { steps, unreaped, max_threads });
    }
}

/// Runs `f` on the kernel. None = no scenario is loaded (the binary behaves like the shipped one, minus spawning).
pub fn with<R>(f: impl FnOnce(&mut Kernel) -> R) -> Option<R> {
    crate::interpose::ensure_init();
    let mut guard = match KERNEL.lock() {
        Ok(g) => g,
        Err(p) => p.into_inner(),
    };
    guard.as_mut().map(f)
}

pub fn digest_of(bytes: &[u8]) -> u64 {
    let mut f = Fnv::default();
    f.update(bytes);
    f.0
}
