//! Direct system calls used by the seam itself, so that its own I/O never passes through the interposers.

use std::sync::atomic::{AtomicI32, Ordering::Relaxed};

pub static TRACE_FD: AtomicI32 = AtomicI32::new(-1);
/// number of pthread_create calls seen by the interposer (0 = this process never had a second thread)
pub static THREADS_CREATED: std::sync::atomic::AtomicUsize = std::sync::atomic::AtomicUsize::new(0);

pub fn sys_write(fd: i32, bytes: &[u8]) -> isize {
    unsafe { libc::syscall(libc::SYS_write, fd as libc::c_long, bytes.as_ptr(), bytes.len()) as isize }
}

pub fn write_all_fd(fd: i32, mut bytes: &[u8]) {
    while !bytes.is_empty() {
        let n = sys_write(fd, bytes);
        if n <= 0 {
            let e = unsafe { *libc::__errno_location() };
            if n < 0 && e == libc::EINTR {
                continue;
            }
            return;
        }
        bytes = &bytes[n as usize..];
    }
}

/// One trace record = one line, written with a single unbuffered write so that it survives aborts.
pub fn trace_write(line: &[u8]) {
    let fd = TRACE_FD.load(Relaxed);
    if fd < 0 {
        return;
    }
    let mut v = Vec::with_capacity(line.len() + 1);
    v.extend_from_slice(line);
    v.push(b'\n');
    write_all_fd(fd, &v);
}

pub fn exit_now(code: i32) -> ! {
    unsafe { libc::_exit(code) }
}

/// Number of threads of this process (from /proc/self/stat, read with direct system calls).
pub fn thread_count() -> usize {
    if THREADS_CREATED.load(std::sync::atomic::Ordering::SeqCst) == 0 {
        return 1;
    }
    unsafe {
        let fd = libc::syscall(libc::SYS_openat, libc::AT_FDCWD, b"/proc/self/stat\0".as_ptr(), libc::O_RDONLY | libc::O_CLOEXEC, 0) as i32;
        if fd < 0 {
            return 1;
        }
        let mut buf = [0u8; 1024];
        let n = libc::syscall(libc::SYS_read, fd as libc::c_long, buf.as_mut_ptr(), buf.len()) as isize;
        libc::syscall(libc::SYS_close, fd as libc::c_long);
        if n <= 0 {
            return 1;
        }
        let text = &buf[..n as usize];
        // fields after the command name "(...)": state is field 3, num_threads is field 20
        let close = match text.iter().rposition(|b| *b == b')') {
            Some(i) => i,
            None => return 1,
        };
        let rest = std::str::from_utf8(&text[close + 1..]).unwrap_or("");
        rest.split_whitespace().nth(17).and_then(|s| s.parse().ok()).unwrap_or(1)
    }
}
