//! Direct system calls used by the seam itself, so that its own I/O never passes through the interposers.

use std::sync::atomic::{AtomicI32, Ordering::Relaxed};

pub static TRACE_FD: AtomicI32 = AtomicI32::new(-1);

pub fn sys_write(fd: i32, bytes: &[u8]) -> isize {
    unsafe { libc::syscall(libc::SYS_write, fd as libc::c_long, bytes.as_ptr(), bytes.len()) as isize }
}

pub fn write_all_fd(fd: i32, mut bytes: &[u8]) {
    while !bytes.is_empty() {
        let n = sys_write(fd, bytes);
        if n <= 0 {
            let e = unsafe { *libc::__errno_location() };
            if n < 0 && e == libc::EINTR {
                continue;
            }
            return;
        }
        bytes = &bytes[n as usize..];
    }
}

/// One trace record = one line, written with a single unbuffered write so that it survives aborts.
pub fn trace_write(line: &[u8]) {
    let fd = TRACE_FD.load(Relaxed);
    if fd < 0 {
        return;
    }
    let mut v = Vec::with_capacity(line.len() + 1);
    v.extend_from_slice(line);
    v.push(b'\n');
    write_all_fd(fd, &v);
}

pub fn exit_now(code: i32) -> ! {
    unsafe { libc::_exit(code) }
}
