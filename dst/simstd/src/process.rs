//! The process seam: a drop-in for the parts of `std::process` a program uses to run children, backed by the
//! simulation kernel. Types that carry no OS resource (`ExitStatus`, `ExitCode`, `Output`) are the real std types.

use crate::kernel::{self, Attempt, Endpoint, Kernel};
use ::std::ffi::{OsStr, OsString};
use ::std::io::{self, Read, Write};
use ::std::os::unix::process::ExitStatusExt;
use ::std::path::Path;

pub use ::std::process::{abort, exit, id, ExitCode, ExitStatus, Output, Termination};

#[derive(Clone, Copy, Debug, PartialEq, Eq)]
pub enum StdioKind {
    Inherit,
    Null,
    Piped,
}

#[derive(Debug)]
pub struct Stdio(StdioKind);

impl Stdio {
    pub fn piped() -> Stdio {
        Stdio(StdioKind::Piped)
    }
    pub fn inherit() -> Stdio {
        Stdio(StdioKind::Inherit)
    }
    pub fn null() -> Stdio {
        Stdio(StdioKind::Null)
    }
}

#[derive(Debug)]
pub struct Command {
    program: OsString,
    args: Vec<OsString>,
    envs: Vec<(OsString, Option<OsString>)>,
    env_clear: bool,
    cwd: Option<OsString>,
    stdin: Option<StdioKind>,
    stdout: Option<StdioKind>,
    stderr: Option<StdioKind>,
}

impl Command {
    pub fn new<S: AsRef<OsStr>>(program: S) -> Command {
        Command {
            program: program.as_ref().to_owned(),
            args: Vec::new(),
            envs: Vec::new(),
            env_clear: false,
            cwd: None,
            stdin: None,
            stdout: None,
            stderr: None,
        }
    }
    pub fn arg<S: AsRef<OsStr>>(&mut self, arg: S) -> &mut Command {
        self.args.push(arg.as_ref().to_owned());
        self
    }
    pub fn args<I, S>(&mut self, args: I) -> &mut Command
    where
        I: IntoIterator<Item = S>,
        S: AsRef<OsStr>,
    {
        for a in args {
            self.args.push(a.as_ref().to_owned());
        }
        self
    }
    pub fn env<K: AsRef<OsStr>, V: AsRef<OsStr>>(&mut self, key: K, val: V) -> &mut Command {
        self.envs.push((key.as_ref().to_owned(), Some(val.as_ref().to_owned())));
        self
    }
    pub fn envs<I, K, V>(&mut self, vars: I) -> &mut Command
    where
        I: IntoIterator<Item = (K, V)>,
        K: AsRef<OsStr>,
        V: AsRef<OsStr>,
    {
        for (k, v) in vars {
            self.env(k, v);
        }
        self
    }
    pub fn env_remove<K: AsRef<OsStr>>(&mut self, key: K) -> &mut Command {
        self.envs.push((key.as_ref().to_owned(), None));
        self
    }
    pub fn env_clear(&mut self) -> &mut Command {
        self.env_clear = true;
        self.envs.clear();
        self
    }
    pub fn current_dir<P: AsRef<Path>>(&mut self, dir: P) -> &mut Command {
        self.cwd = Some(dir.as_ref().as_os_str().to_owned());
        self
    }
    pub fn stdin<T: Into<Stdio>>(&mut self, cfg: T) -> &mut Command {
        self.stdin = Some(cfg.into().0);
        self
    }
    pub fn stdout<T: Into<Stdio>>(&mut self, cfg: T) -> &mut Command {
        self.stdout = Some(cfg.into().0);
        self
    }
    pub fn stderr<T: Into<Stdio>>(&mut self, cfg: T) -> &mut Command {
        self.stderr = Some(cfg.into().0);
        self
    }
    pub fn get_program(&self) -> &OsStr {
        &self.program
    }
    pub fn get_args(&self) -> impl Iterator<Item = &OsStr> {
        self.args.iter().map(|a| a.as_os_str())
    }
    pub fn get_current_dir(&self) -> Option<&Path> {
        self.cwd.as_ref().map(Path::new)
    }

    fn spawn_with(&mut self, default: StdioKind) -> io::Result<Child> {
        let stdio = [self.stdin.unwrap_or(default), self.stdout.unwrap_or(default), self.stderr.unwrap_or(default)];
        let program = self.program.to_string_lossy().into_owned();
        let args: Vec<String> = self.args.iter().map(|a| a.to_string_lossy().into_owned()).collect();
        let r = kernel::with(|k| {
            let g = k.spawn(&program, args, stdio)?;
            Ok::<_, i32>((g, k.endpoints(g)))
        });
        match r {
            None => Err(io::Error::new(io::ErrorKind::Unsupported, "simstd: no scenario loaded, cannot spawn processes")),
            Some(Err(errno)) => Err(io::Error::from_raw_os_error(errno)),
            Some(Ok((g, (si, so, se)))) => Ok(Child {
                handle: g,
                stdin: match si {
                    Endpoint::Pipe(p) => Some(ChildStdin { gen: g, pipe: p }),
                    _ => None,
                },
                stdout: match so {
                    Endpoint::Pipe(p) => Some(ChildStdout { gen: g, pipe: p }),
                    _ => None,
                },
                stderr: match se {
                    Endpoint::Pipe(p) => Some(ChildStderr { gen: g, pipe: p }),
                    _ => None,
                },
            }),
        }
    }

    pub fn spawn(&mut self) -> io::Result<Child> {
        self.spawn_with(StdioKind::Inherit)
    }

    pub fn output(&mut self) -> io::Result<Output> {
        // like std: stdout and stderr default to pipes, stdin to null
        if self.stdin.is_none() {
            self.stdin = Some(StdioKind::Null);
        }
        let child = self.spawn_with(StdioKind::Piped)?;
        child.wait_with_output()
    }

    pub fn status(&mut self) -> io::Result<ExitStatus> {
        let mut child = self.spawn_with(StdioKind::Inherit)?;
        child.wait()
    }
}

#[derive(Debug)]
pub struct ChildStdin {
    gen: usize,
    pipe: usize,
}

#[derive(Debug)]
pub struct ChildStdout {
    gen: usize,
    pipe: usize,
}

#[derive(Debug)]
pub struct ChildStderr {
    gen: usize,
    pipe: usize,
}

/// Runs a blocking operation. With a single-threaded compiler "no generator can take a step" is a deadlock at once
/// (deterministic). If the compiler has started threads of its own, one of them may still unblock this one: the
/// kernel lock is released between attempts and the deadlock is only declared after the other threads had two
/// seconds of real time without any change in the simulated world.
fn blocking<R>(subject: usize, op: u8, mut attempt: impl FnMut(&mut Kernel, bool) -> Attempt<R>) -> Option<R> {
    let mut first = true;
    let mut last_progress: Option<u64> = None;
    let mut waited_us: u64 = 0;
    let threads = crate::raw::thread_count();
    if threads > 1 {
        // seeded delay (see Kernel::jitter_us); never for the single-threaded compiler
        if let Some(us) = kernel::with(|k| k.jitter_us(subject, op)) {
            ::std::thread::sleep(::std::time::Duration::from_micros(us));
        }
    }
    loop {
        let a = kernel::with(|k| {
            k.max_threads = k.max_threads.max(threads);
            attempt(k, first)
        })?;
        first = false;
        match a {
            Attempt::Done(r) => return Some(r),
            Attempt::Stuck { progress, detail } => {
                if crate::raw::thread_count() <= 1 {
                    // Nobody else exists NOW. A helper thread that has just finished may still have changed the
                    // simulated world after this attempt was made: only an unchanged world is a deadlock.
                    let unchanged = kernel::with(|k| k.progress == progress).unwrap_or(true);
                    if unchanged {
                        kernel::with(|k| k.die_hang(detail.clone()));
                    }
                    continue;
                }
                if last_progress != Some(progress) {
                    last_progress = Some(progress);
                    waited_us = 0;
                }
                if waited_us > 2_000_000 {
                    let d = format!("{detail} (the compiler's other threads were given 2 s and changed nothing)");
                    kernel::with(|k| k.die_hang(d.clone()));
                }
                ::std::thread::sleep(::std::time::Duration::from_micros(500));
                waited_us += 500;
            }
        }
    }
}

/// What the kernel does to a process that writes to a pipe nobody reads: SIGPIPE first, EPIPE only if the signal is
/// ignored or handled. Rust's runtime ignores it before `main`; a program that sets it back to the default dies here,
/// exactly as it would on a real pipe.
fn deliver_sigpipe() {
    unsafe {
        let mut current: libc::sigaction = ::std::mem::zeroed();
        if libc::sigaction(libc::SIGPIPE, ::std::ptr::null(), &mut current) == 0 && current.sa_sigaction == libc::SIG_DFL {
            kernel::with(|k| k.note_compiler_sigpipe());
            libc::raise(libc::SIGPIPE);
        }
    }
}

fn seam_gone() -> io::Error {
    io::Error::new(io::ErrorKind::Other, "simstd: kernel not available")
}

impl Write for ChildStdin {
    fn write(&mut self, buf: &[u8]) -> io::Result<usize> {
        match blocking(self.gen, 0, |k, first| k.stdin_write(self.gen, self.pipe, buf, first)) {
            None => Err(seam_gone()),
            Some(Ok(n)) => Ok(n),
            Some(Err(errno)) => {
                if errno == libc::EPIPE {
                    deliver_sigpipe();
                }
                Err(io::Error::from_raw_os_error(errno))
            }
        }
    }
    fn flush(&mut self) -> io::Result<()> {
        Ok(())
    }
}

impl Write for &ChildStdin {
    fn write(&mut self, buf: &[u8]) -> io::Result<usize> {
        match blocking(self.gen, 0, |k, first| k.stdin_write(self.gen, self.pipe, buf, first)) {
            None => Err(seam_gone()),
            Some(Ok(n)) => Ok(n),
            Some(Err(errno)) => {
                if errno == libc::EPIPE {
                    deliver_sigpipe();
                }
                Err(io::Error::from_raw_os_error(errno))
            }
        }
    }
    fn flush(&mut self) -> io::Result<()> {
        Ok(())
    }
}

impl Drop for ChildStdin {
    fn drop(&mut self) {
        kernel::with(|k| k.stdin_close(self.gen, self.pipe));
    }
}

impl Read for ChildStdout {
    fn read(&mut self, buf: &mut [u8]) -> io::Result<usize> {
        match blocking(self.gen, 1, |k, first| k.pipe_read(self.gen, 1, self.pipe, buf, first)) {
            None => Err(seam_gone()),
            Some(Ok(n)) => Ok(n),
            Some(Err(errno)) => Err(io::Error::from_raw_os_error(errno)),
        }
    }
}

impl Drop for ChildStdout {
    fn drop(&mut self) {
        kernel::with(|k| k.pipe_close_read(self.pipe));
    }
}

impl Read for ChildStderr {
    fn read(&mut self, buf: &mut [u8]) -> io::Result<usize> {
        match blocking(self.gen, 2, |k, first| k.pipe_read(self.gen, 2, self.pipe, buf, first)) {
            None => Err(seam_gone()),
            Some(Ok(n)) => Ok(n),
            Some(Err(errno)) => Err(io::Error::from_raw_os_error(errno)),
        }
    }
}

impl Drop for ChildStderr {
    fn drop(&mut self) {
        kernel::with(|k| k.pipe_close_read(self.pipe));
    }
}

#[derive(Debug)]
pub struct Child {
    handle: usize,
    pub stdin: Option<ChildStdin>,
    pub stdout: Option<ChildStdout>,
    pub stderr: Option<ChildStderr>,
}

impl Child {
    /// Simulated process id (stable across runs).
    pub fn id(&self) -> u32 {
        1000 + self.handle as u32
    }

    pub fn kill(&mut self) -> io::Result<()> {
        match kernel::with(|k| k.kill(self.handle)) {
            None => Err(seam_gone()),
            Some(Ok(())) => Ok(()),
            Some(Err(e)) => Err(io::Error::from_raw_os_error(e)),
        }
    }

    pub fn wait(&mut self) -> io::Result<ExitStatus> {
        // like std: the child's stdin is closed first so that a child waiting for input can finish
        drop(self.stdin.take());
        match blocking(self.handle, 3, |k, first| k.wait(self.handle, first)) {
            None => Err(seam_gone()),
            Some(Ok(raw)) => Ok(ExitStatus::from_raw(raw)),
            Some(Err(e)) => Err(io::Error::from_raw_os_error(e)),
        }
    }

    pub fn try_wait(&mut self) -> io::Result<Option<ExitStatus>> {
        match kernel::with(|k| k.try_wait(self.handle)) {
            None => Err(seam_gone()),
            Some(Ok(st)) => Ok(st.map(ExitStatus::from_raw)),
            Some(Err(e)) => Err(io::Error::from_raw_os_error(e)),
        }
    }

    pub fn wait_with_output(mut self) -> io::Result<Output> {
        drop(self.stdin.take());
        let out = self.stdout.take();
        let err = self.stderr.take();
        let (op, ep) = (out.as_ref().map(|o| o.pipe), err.as_ref().map(|e| e.pipe));
        let r = blocking(self.handle, 4, |k, first| k.wait_with_output(self.handle, op, ep, first));
        // the read ends are closed by the kernel; do not close them a second time
        ::std::mem::forget(out);
        ::std::mem::forget(err);
        match r {
            None => Err(seam_gone()),
            Some(Ok((raw, stdout, stderr))) => Ok(Output { status: ExitStatus::from_raw(raw), stdout, stderr }),
            Some(Err(e)) => Err(io::Error::from_raw_os_error(e)),
        }
    }
}
