//! Shadow `std` for the binary crate of slicec.
//!
//! The generated `simhost` package compiles the repository's unmodified `slicec/src/main.rs` with
//! `std = { package = "simstd" }`, so inside that crate the name `std` resolves here: everything is the real std
//! re-exported, except `std::process`, which is the process seam of the simulation kernel. The same library carries
//! the libc-level interposers (file I/O faults, getrandom) that the static linker binds in preference to libc's.

pub use ::std::*;

pub mod process;

#[doc(hidden)]
pub mod interpose;
#[doc(hidden)]
pub mod kernel;
#[doc(hidden)]
pub mod raw;

/// Loads the scenario before `main` runs (heap shift, trace, fault plan).
#[used]
#[link_section = ".init_array"]
static SIMSTD_INIT: extern "C" fn() = {
    extern "C" fn init() {
        interpose::ensure_init();
        ::std::hint::black_box(interpose::anchor());
    }
    init
};
