pub use ::std::*;
