//! Plays the script found in `<argv[0]>.script.json` on the real stdin/stdout/stderr of this process.
//! Semantics mirror the simulation kernel's script interpreter (dst/simstd/src/kernel.rs).

use refcodec::schema::{request_completeness, Completeness};
use simproto::{Generator, ScriptOp};

fn read_some(max: usize) -> Option<Vec<u8>> {
    let mut buf = vec![0u8; max.min(1 << 16).max(1)];
    loop {
        let n = unsafe { libc::read(0, buf.as_mut_ptr() as *mut _, buf.len()) };
        if n < 0 {
            let e = std::io::Error::last_os_error();
            if e.raw_os_error() == Some(libc::EINTR) {
                continue;
            }
            return Some(Vec::new()); // closed descriptor etc.: behaves like end of file
        }
        buf.truncate(n as usize);
        return Some(buf);
    }
}

fn write_all(fd: i32, mut data: &[u8]) {
    while !data.is_empty() {
        let n = unsafe { libc::write(fd, data.as_ptr() as *const _, data.len()) };
        if n < 0 {
            let e = std::io::Error::last_os_error();
            if e.raw_os_error() == Some(libc::EINTR) {
                continue;
            }
            return; // EBADF after close: scripts ignore it (EPIPE never returns: SIGPIPE is at its default)
        }
        data = &data[n as usize..];
    }
}

fn main() {
    unsafe {
        libc::signal(libc::SIGPIPE, libc::SIG_DFL);
    }
    let me = std::env::args().next().unwrap_or_default();
    let script_path = format!("{me}.script.json");
    let g: Generator = match std::fs::read(&script_path).ok().and_then(|b| serde_json::from_slice(&b).ok()) {
        Some(g) => g,
        None => {
            eprintln!("fakegen: no script at {script_path}");
            std::process::exit(99);
        }
    };
    let mut request: Vec<u8> = Vec::new();
    for op in &g.script {
        match op {
            ScriptOp::ReadRequest => loop {
                let b = read_some(1 << 16).unwrap_or_default();
                let eof = b.is_empty();
                request.extend_from_slice(&b);
                match request_completeness(&request) {
                    Completeness::Complete(_) => break,
                    Completeness::Malformed => {
                        write_all(2, b"generator: cannot decode request: malformed\n");
                        std::process::exit(70);
                    }
                    Completeness::NeedMore => {
                        if eof {
                            write_all(2, b"generator: cannot decode request: truncated\n");
                            std::process::exit(70);
                        }
                    }
                }
            },
            ScriptOp::Read { n } => {
                let _ = read_some(*n);
            }
            ScriptOp::ReadExact { n } => {
                let mut got = 0;
                while got < *n {
                    let b = read_some(*n - got).unwrap_or_default();
                    if b.is_empty() {
                        break;
                    }
                    got += b.len();
                }
            }
            ScriptOp::ReadToEof => loop {
                let b = read_some(1 << 16).unwrap_or_default();
                if b.is_empty() {
                    break;
                }
            },
            ScriptOp::Write { fd, hex } => write_all(if *fd == 2 { 2 } else { 1 }, &refcodec::util::unhex(hex).unwrap_or_default()),
            ScriptOp::WriteFill { fd, n, byte } => write_all(if *fd == 2 { 2 } else { 1 }, &vec![*byte; *n]),
            ScriptOp::Close { fd } => unsafe {
                libc::close(*fd as i32);
            },
            ScriptOp::Exit { code } => std::process::exit(*code),
            ScriptOp::Die { signal } => unsafe {
                libc::signal(*signal, libc::SIG_DFL);
                libc::raise(*signal);
                libc::pause();
            },
            ScriptOp::Yield { n } => {
                for _ in 0..*n {
                    unsafe {
                        libc::sched_yield();
                    }
                }
            }
        }
    }
    std::process::exit(0);
}
