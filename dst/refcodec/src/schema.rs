//! The `Compiler` schema (slice/Compiler/*.slice), transcribed by hand from those files into `Ty` descriptors, plus
//! helpers to take a generator request apart and to build / read generator replies.

use crate::dynval::*;

fn seq(t: Ty) -> Ty {
    Ty::Seq(Box::new(t))
}
fn named(n: &'static str) -> Ty {
    Ty::Named(n)
}

/// struct/enum definitions of SyntaxElements.slice, DocComment.slice and CodeGenerator.slice.
pub fn compiler_schema(name: &'static str) -> Option<Ty> {
    let entity_info = || field("entityInfo", named("EntityInfo"));
    Some(match name {
        "Attribute" => Ty::Struct("Attribute", vec![field("directive", Ty::Str), field("args", seq(Ty::Str))]),
        "TypeRef" => Ty::Struct(
            "TypeRef",
            vec![
                field("typeId", Ty::Str),
                field("isOptional", Ty::Bool),
                field("typeAttributes", seq(named("Attribute"))),
            ],
        ),
        "EntityInfo" => Ty::Struct(
            "EntityInfo",
            vec![
                field("identifier", Ty::Str),
                field("attributes", seq(named("Attribute"))),
                opt_field("comment", named("DocComment")),
            ],
        ),
        "Module" => {
            Ty::Struct("Module", vec![field("identifier", Ty::Str), field("attributes", seq(named("Attribute")))])
        }
        "Struct" => Ty::Struct(
            "Struct",
            vec![entity_info(), field("isCompact", Ty::Bool), field("fields", seq(named("Field")))],
        ),
        "Field" => Ty::Struct(
            "Field",
            vec![entity_info(), opt_field("tag", Ty::VarI32), field("dataType", named("TypeRef"))],
        ),
        "Interface" => Ty::Struct(
            "Interface",
            vec![entity_info(), field("bases", seq(Ty::Str)), field("operations", seq(named("Operation")))],
        ),
        "Operation" => Ty::Struct(
            "Operation",
            vec![
                entity_info(),
                field("isIdempotent", Ty::Bool),
                field("parameters", seq(named("Field"))),
                field("hasStreamedParameter", Ty::Bool),
                field("returnType", seq(named("Field"))),
                field("hasStreamedReturn", Ty::Bool),
            ],
        ),
        "BasicEnum" => Ty::Struct(
            "BasicEnum",
            vec![
                entity_info(),
                field("isUnchecked", Ty::Bool),
                field("underlying", Ty::Str),
                field("enumerators", seq(named("Enumerator"))),
            ],
        ),
        "Enumerator" => Ty::Struct(
            "Enumerator",
            vec![entity_info(), field("absoluteValue", Ty::U64), field("hasNegativeValue", Ty::Bool)],
        ),
        "VariantEnum" => Ty::Struct(
            "VariantEnum",
            vec![
                entity_info(),
                field("isCompact", Ty::Bool),
                field("isUnchecked", Ty::Bool),
                field("variants", seq(named("Variant"))),
            ],
        ),
        "Variant" => Ty::Struct(
            "Variant",
            vec![entity_info(), field("discriminant", Ty::I32), field("fields", seq(named("Field")))],
        ),
        "CustomType" => Ty::Struct("CustomType", vec![entity_info()]),
        "TypeAlias" => Ty::Struct("TypeAlias", vec![entity_info(), field("underlyingType", named("TypeRef"))]),
        "SequenceType" => Ty::Struct("SequenceType", vec![field("elementType", named("TypeRef"))]),
        "DictionaryType" => Ty::Struct(
            "DictionaryType",
            vec![field("keyType", named("TypeRef")), field("valueType", named("TypeRef"))],
        ),
        "ResultType" => Ty::Struct(
            "ResultType",
            vec![field("successType", named("TypeRef")), field("failureType", named("TypeRef"))],
        ),
        "DocComment" => Ty::Struct(
            "DocComment",
            vec![field("overview", seq(named("MessageComponent"))), field("seeTags", seq(Ty::Str))],
        ),
        "MessageComponent" => Ty::Enum(
            "MessageComponent",
            vec![("Text", vec![field("v", Ty::Str)]), ("Link", vec![field("v", Ty::Str)])],
        ),
        "Symbol" => Ty::Enum(
            "Symbol",
            vec![
                ("Interface", vec![field("v", named("Interface"))]),
                ("BasicEnum", vec![field("v", named("BasicEnum"))]),
                ("VariantEnum", vec![field("v", named("VariantEnum"))]),
                ("Struct", vec![field("v", named("Struct"))]),
                ("CustomType", vec![field("v", named("CustomType"))]),
                ("SequenceType", vec![field("v", named("SequenceType"))]),
                ("DictionaryType", vec![field("v", named("DictionaryType"))]),
                ("ResultType", vec![field("v", named("ResultType"))]),
                ("TypeAlias", vec![field("v", named("TypeAlias"))]),
            ],
        ),
        "SliceFile" => Ty::Struct(
            "SliceFile",
            vec![
                field("path", Ty::Str),
                field("moduleDeclaration", named("Module")),
                field("attributes", seq(named("Attribute"))),
                field("contents", seq(named("Symbol"))),
            ],
        ),
        "GeneratedFile" => {
            Ty::Struct("GeneratedFile", vec![field("path", Ty::Str), field("contents", Ty::Str)])
        }
        "Diagnostic" => Ty::Struct(
            "Diagnostic",
            vec![field("level", Ty::U8Enum(3)), field("message", Ty::Str), opt_field("source", Ty::Str)],
        ),
        _ => return None,
    })
}

#[derive(Clone, Debug, PartialEq, Eq)]
pub struct FileChunk {
    pub path: String,
    pub module: String,
    /// Byte range of this file's encoding inside the request.
    pub start: usize,
    pub end: usize,
    pub val: Val,
}

#[derive(Clone, Debug, PartialEq, Eq)]
pub struct Request {
    pub operation: String,
    pub sources: Vec<FileChunk>,
    pub references: Vec<FileChunk>,
    /// Where the common part (operation + both file sequences) ends and the generator's own arguments begin.
    pub args_start: usize,
    pub args: Vec<(String, String)>,
    pub end: usize,
}

fn read_files(r: &mut Reader) -> Result<Vec<FileChunk>, RefErr> {
    let n = r.size()?;
    let ty = compiler_schema("SliceFile").unwrap();
    let mut out = Vec::new();
    for _ in 0..n {
        let start = r.pos;
        let val = r.decode(&ty)?;
        let end = r.pos;
        let path = val.field(0).and_then(|v| v.as_str()).unwrap_or("").to_owned();
        let module = val.field(1).and_then(|m| m.field(0)).and_then(|v| v.as_str()).unwrap_or("").to_owned();
        out.push(FileChunk { path, module, start, end, val });
    }
    Ok(out)
}

/// Parses `operation name, source files, reference files, arguments` from the front of `bytes`.
pub fn parse_request(bytes: &[u8]) -> Result<Request, RefErr> {
    let mut r = Reader::with_schema(bytes, compiler_schema);
    let operation = r.string()?;
    let sources = read_files(&mut r)?;
    let references = read_files(&mut r)?;
    let args_start = r.pos;
    let n = r.size()?;
    let mut args = Vec::new();
    for _ in 0..n {
        let k = r.string()?;
        let v = r.string()?;
        args.push((k, v));
    }
    Ok(Request { operation, sources, references, args_start, args, end: r.pos })
}

#[derive(Clone, Copy, Debug, PartialEq, Eq)]
pub enum Completeness {
    /// A whole request occupies the first `n` bytes.
    Complete(usize),
    NeedMore,
    Malformed,
}

/// What a generator that parses its self-delimiting request knows after having received `bytes`.
pub fn request_completeness(bytes: &[u8]) -> Completeness {
    match parse_request(bytes) {
        Ok(r) => Completeness::Complete(r.end),
        Err(RefErr::Eob { .. }) => Completeness::NeedMore,
        Err(_) => Completeness::Malformed,
    }
}

pub fn encode_args(args: &[(String, String)]) -> Vec<u8> {
    let mut w = Writer::new();
    w.size(args.len());
    for (k, v) in args {
        w.string(k);
        w.string(v);
    }
    w.out
}

// ------------------------------------------------------------------------------------------------------------------
// Replies
// ------------------------------------------------------------------------------------------------------------------

#[derive(Clone, Debug, PartialEq, Eq)]
pub struct RFile {
    /// Raw bytes so that scenarios can carry invalid UTF-8.
    pub path: Vec<u8>,
    pub contents: Vec<u8>,
}

#[derive(Clone, Debug, PartialEq, Eq)]
pub struct RDiag {
    pub level: u8,
    pub message: Vec<u8>,
    pub source: Option<Vec<u8>>,
}

#[derive(Clone, Debug, Default, PartialEq, Eq)]
pub struct Reply {
    pub files: Vec<RFile>,
    pub diagnostics: Vec<RDiag>,
}

pub fn encode_reply(reply: &Reply) -> Vec<u8> {
    let mut w = Writer::new();
    w.size(reply.files.len());
    for f in &reply.files {
        w.bytes_as_string(&f.path);
        w.bytes_as_string(&f.contents);
        w.tag_end();
    }
    w.size(reply.diagnostics.len());
    for d in &reply.diagnostics {
        w.out.push(d.source.is_some() as u8);
        w.out.push(d.level);
        w.bytes_as_string(&d.message);
        if let Some(s) = &d.source {
            w.bytes_as_string(s);
        }
        w.tag_end();
    }
    w.out
}

pub fn reply_ty() -> (Ty, Ty) {
    (seq(named("GeneratedFile")), seq(named("Diagnostic")))
}

/// Strict reference decoding of a reply: `Sequence<GeneratedFile> Sequence<Diagnostic>`.
/// Returns the reply and the number of bytes consumed (trailing bytes are the caller's business).
pub fn decode_reply(bytes: &[u8]) -> Result<(Reply, usize), RefErr> {
    let mut r = Reader::with_schema(bytes, compiler_schema);
    let (ft, dt) = reply_ty();
    let files = r.decode(&ft)?;
    let diags = r.decode(&dt)?;
    let mut reply = Reply::default();
    for f in files.as_seq().unwrap() {
        reply.files.push(RFile {
            path: f.field(0).unwrap().as_str().unwrap().as_bytes().to_vec(),
            contents: f.field(1).unwrap().as_str().unwrap().as_bytes().to_vec(),
        });
    }
    for d in diags.as_seq().unwrap() {
        let level = match d.field(0) {
            Some(Val::Int(i)) => *i as u8,
            _ => unreachable!(),
        };
        reply.diagnostics.push(RDiag {
            level,
            message: d.field(1).unwrap().as_str().unwrap().as_bytes().to_vec(),
            source: d.field(2).map(|s| s.as_str().unwrap().as_bytes().to_vec()),
        });
    }
    Ok((reply, r.pos))
}

#[cfg(test)]
mod tests {
    use super::*;

    #[test]
    fn reply_round_trip() {
        let reply = Reply {
            files: vec![RFile { path: b"a/b.cs".to_vec(), contents: b"hello".to_vec() }],
            diagnostics: vec![RDiag { level: 1, message: b"m".to_vec(), source: Some(b"s".to_vec()) }],
        };
        let b = encode_reply(&reply);
        assert_eq!(decode_reply(&b).unwrap(), (reply, b.len()));
        assert_eq!(decode_reply(&[0, 0]).unwrap().0, Reply::default());
        assert!(decode_reply(&[0]).is_err());
        assert!(decode_reply(&[]).is_err());
    }

    #[test]
    fn minimal_request() {
        // "generateCode", no sources, no references, no args
        let mut w = Writer::new();
        w.string("generateCode");
        w.size(0);
        w.size(0);
        let common = w.out.len();
        w.size(1);
        w.string("k");
        w.string("v");
        let r = parse_request(&w.out).unwrap();
        assert_eq!(r.operation, "generateCode");
        assert_eq!(r.args_start, common);
        assert_eq!(r.args, vec![("k".to_string(), "v".to_string())]);
        assert_eq!(r.end, w.out.len());
        assert_eq!(request_completeness(&w.out[..w.out.len() - 1]), Completeness::NeedMore);
        assert_eq!(request_completeness(&w.out), Completeness::Complete(w.out.len()));
    }
}
