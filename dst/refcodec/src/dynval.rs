//! An independent, dynamically typed implementation of the Slice2 wire format.
//!
//! It shares no code with `slice-codec`. It is the strict reference the simulated checks compare against:
//! bools are 0/1, strings are valid UTF-8, variable-width integers must fit their target type, dictionary keys are
//! unique, a struct ends with its tagged fields and the tag end marker.

use std::fmt;

#[derive(Clone, Debug, PartialEq, Eq)]
pub enum Ty {
    Bool,
    U8,
    I8,
    U16,
    I16,
    U32,
    I32,
    U64,
    I64,
    F32,
    F64,
    /// varint32: variable-width signed, must fit i32.
    VarI32,
    /// varint62: variable-width signed, any encodable value.
    VarI62,
    /// varuint32: variable-width unsigned, must fit u32.
    VarU32,
    /// varuint62 decoded into u64.
    VarU62,
    /// A size: varuint62 decoded into usize (same range as VarU62 on 64-bit).
    Size,
    Str,
    Seq(Box<Ty>),
    /// Dictionary: unique keys required.
    Dict(Box<Ty>, Box<Ty>),
    /// Non-compact struct: bit sequence for optional fields, fields in order, tagged fields, tag end marker.
    Struct(&'static str, Vec<Field>),
    /// Enum with fields: varint32 discriminant = index of the variant, its fields, tagged fields, tag end marker.
    Enum(&'static str, Vec<(&'static str, Vec<Field>)>),
    /// Reference into a schema table (allows recursion and sharing).
    Named(&'static str),
    /// An enum carried on one byte whose value must be below the bound.
    U8Enum(u8),
    /// "Skip the remaining tagged fields": (tag varint32, size, bytes)* followed by the tag end marker.
    SkipTagged,
}

#[derive(Clone, Debug, PartialEq, Eq)]
pub struct Field {
    pub name: &'static str,
    pub ty: Ty,
    pub optional: bool,
}

pub fn field(name: &'static str, ty: Ty) -> Field {
    Field { name, ty, optional: false }
}
pub fn opt_field(name: &'static str, ty: Ty) -> Field {
    Field { name, ty, optional: true }
}

#[derive(Clone, Debug, PartialEq, Eq, PartialOrd, Ord)]
pub enum Val {
    Bool(bool),
    Int(i128),
    /// Floats are compared by bit pattern.
    F32(u32),
    F64(u64),
    Str(String),
    Seq(Vec<Val>),
    /// Entries in wire order.
    Dict(Vec<(Val, Val)>),
    /// Field values in declaration order; `None` for an absent optional.
    Struct(Vec<Option<Val>>),
    Enum(usize, Vec<Option<Val>>),
    Unit,
}

impl Val {
    pub fn as_str(&self) -> Option<&str> {
        match self {
            Val::Str(s) => Some(s),
            _ => None,
        }
    }
    pub fn as_seq(&self) -> Option<&[Val]> {
        match self {
            Val::Seq(s) => Some(s),
            _ => None,
        }
    }
    pub fn field(&self, i: usize) -> Option<&Val> {
        match self {
            Val::Struct(f) | Val::Enum(_, f) => f.get(i).and_then(|x| x.as_ref()),
            _ => None,
        }
    }
    /// Dictionaries compare as sets of entries: canonical form sorts them.
    pub fn canonical(&self) -> Val {
        match self {
            Val::Seq(v) => Val::Seq(v.iter().map(|x| x.canonical()).collect()),
            Val::Dict(v) => {
                let mut e: Vec<(Val, Val)> = v.iter().map(|(k, x)| (k.canonical(), x.canonical())).collect();
                e.sort();
                Val::Dict(e)
            }
            Val::Struct(f) => Val::Struct(f.iter().map(|x| x.as_ref().map(|v| v.canonical())).collect()),
            Val::Enum(d, f) => Val::Enum(*d, f.iter().map(|x| x.as_ref().map(|v| v.canonical())).collect()),
            other => other.clone(),
        }
    }
}

#[derive(Clone, Debug, PartialEq, Eq)]
pub enum RefErr {
    /// Not enough bytes.
    Eob { at: usize, need: usize },
    IllegalBool { at: usize, value: u8 },
    InvalidUtf8 { at: usize },
    OutOfRange { at: usize, value: i128 },
    DuplicateKey { at: usize },
    IllegalEnumerator { at: usize, value: i128 },
    UnknownType(&'static str),
}

impl fmt::Display for RefErr {
    fn fmt(&self, f: &mut fmt::Formatter<'_>) -> fmt::Result {
        write!(f, "{self:?}")
    }
}

impl RefErr {
    pub fn class(&self) -> &'static str {
        match self {
            RefErr::Eob { .. } => "eob",
            RefErr::IllegalBool { .. } => "bool",
            RefErr::InvalidUtf8 { .. } => "utf8",
            RefErr::OutOfRange { .. } => "range",
            RefErr::DuplicateKey { .. } => "dupkey",
            RefErr::IllegalEnumerator { .. } => "enumerator",
            RefErr::UnknownType(_) => "schema",
        }
    }
}

pub type Schema = fn(&'static str) -> Option<Ty>;

fn no_schema(_: &'static str) -> Option<Ty> {
    None
}

pub struct Reader<'a> {
    pub buf: &'a [u8],
    pub pos: usize,
    pub schema: Schema,
    /// Number of primitive reads performed, a machine-independent measure of decoding work.
    pub steps: u64,
}

impl<'a> Reader<'a> {
    pub fn new(buf: &'a [u8]) -> Self {
        Reader { buf, pos: 0, schema: no_schema, steps: 0 }
    }
    pub fn with_schema(buf: &'a [u8], schema: Schema) -> Self {
        Reader { buf, pos: 0, schema, steps: 0 }
    }
    pub fn remaining(&self) -> usize {
        self.buf.len() - self.pos
    }

    fn take(&mut self, n: usize) -> Result<&'a [u8], RefErr> {
        self.steps += 1;
        if self.remaining() < n {
            return Err(RefErr::Eob { at: self.pos, need: n });
        }
        let s = &self.buf[self.pos..self.pos + n];
        self.pos += n;
        Ok(s)
    }

    fn peek(&self) -> Result<u8, RefErr> {
        self.buf.get(self.pos).copied().ok_or(RefErr::Eob { at: self.pos, need: 1 })
    }

    fn fixed(&mut self, n: usize, signed: bool) -> Result<i128, RefErr> {
        let b = self.take(n)?;
        let mut raw: u128 = 0;
        for (i, x) in b.iter().enumerate() {
            raw |= (*x as u128) << (8 * i);
        }
        if signed && n < 16 && (raw >> (8 * n - 1)) & 1 == 1 {
            // sign extend
            let ext = !0u128 << (8 * n);
            Ok((raw | ext) as i128)
        } else {
            Ok(raw as i128)
        }
    }

    /// Variable-width integer: the two low bits of the first byte give the width (1, 2, 4, 8 bytes).
    pub fn var(&mut self, signed: bool) -> Result<i128, RefErr> {
        let width = 1usize << (self.peek()? & 0b11);
        let raw = self.fixed(width, signed)?;
        Ok(raw >> 2)
    }

    pub fn size(&mut self) -> Result<usize, RefErr> {
        let at = self.pos;
        let v = self.var(false)?;
        usize::try_from(v).map_err(|_| RefErr::OutOfRange { at, value: v })
    }

    pub fn string(&mut self) -> Result<String, RefErr> {
        let n = self.size()?;
        let at = self.pos;
        let b = self.take(n)?;
        match std::str::from_utf8(b) {
            Ok(s) => Ok(s.to_owned()),
            Err(_) => Err(RefErr::InvalidUtf8 { at }),
        }
    }

    pub fn skip_tagged(&mut self) -> Result<(), RefErr> {
        loop {
            let at = self.pos;
            let tag = self.var(true)?;
            if tag < i32::MIN as i128 || tag > i32::MAX as i128 {
                return Err(RefErr::OutOfRange { at, value: tag });
            }
            if tag == -1 {
                return Ok(());
            }
            let n = self.size()?;
            self.take(n)?;
        }
    }

    fn fields(&mut self, fields: &[Field]) -> Result<Vec<Option<Val>>, RefErr> {
        let n_opt = fields.iter().filter(|f| f.optional).count();
        let mut bits = Vec::new();
        if n_opt > 0 {
            let nbytes = (n_opt + 7) / 8;
            let at = self.pos;
            let raw = self.take(nbytes)?;
            for i in 0..n_opt {
                bits.push(raw[i / 8] >> (i % 8) & 1 == 1);
            }
            // Unused bits must be clear. (With a single optional the real code reads the byte as a strict bool.)
            for i in n_opt..nbytes * 8 {
                if raw[i / 8] >> (i % 8) & 1 == 1 {
                    return Err(RefErr::IllegalBool { at, value: raw[i / 8] });
                }
            }
        }
        let mut out = Vec::with_capacity(fields.len());
        let mut k = 0;
        for f in fields {
            if f.optional {
                let present = bits[k];
                k += 1;
                if !present {
                    out.push(None);
                    continue;
                }
            }
            out.push(Some(self.decode(&f.ty)?));
        }
        self.skip_tagged()?;
        Ok(out)
    }

    pub fn decode(&mut self, ty: &Ty) -> Result<Val, RefErr> {
        let at = self.pos;
        let ranged = |v: i128, lo: i128, hi: i128| -> Result<Val, RefErr> {
            if v < lo || v > hi {
                Err(RefErr::OutOfRange { at, value: v })
            } else {
                Ok(Val::Int(v))
            }
        };
        match ty {
            Ty::Bool => {
                let b = self.take(1)?[0];
                match b {
                    0 => Ok(Val::Bool(false)),
                    1 => Ok(Val::Bool(true)),
                    _ => Err(RefErr::IllegalBool { at, value: b }),
                }
            }
            Ty::U8 => Ok(Val::Int(self.fixed(1, false)?)),
            Ty::I8 => Ok(Val::Int(self.fixed(1, true)?)),
            Ty::U16 => Ok(Val::Int(self.fixed(2, false)?)),
            Ty::I16 => Ok(Val::Int(self.fixed(2, true)?)),
            Ty::U32 => Ok(Val::Int(self.fixed(4, false)?)),
            Ty::I32 => Ok(Val::Int(self.fixed(4, true)?)),
            Ty::U64 => Ok(Val::Int(self.fixed(8, false)?)),
            Ty::I64 => Ok(Val::Int(self.fixed(8, true)?)),
            Ty::F32 => Ok(Val::F32(self.fixed(4, false)? as u32)),
            Ty::F64 => Ok(Val::F64(self.fixed(8, false)? as u64)),
            Ty::VarI32 => {
                let v = self.var(true)?;
                ranged(v, i32::MIN as i128, i32::MAX as i128)
            }
            Ty::VarI62 => Ok(Val::Int(self.var(true)?)),
            Ty::VarU32 => {
                let v = self.var(false)?;
                ranged(v, 0, u32::MAX as i128)
            }
            Ty::VarU62 => Ok(Val::Int(self.var(false)?)),
            Ty::Size => Ok(Val::Int(self.size()? as i128)),
            Ty::Str => Ok(Val::Str(self.string()?)),
            Ty::Seq(inner) => {
                let n = self.size()?;
                let mut v = Vec::new();
                for _ in 0..n {
                    v.push(self.decode(inner)?);
                }
                Ok(Val::Seq(v))
            }
            Ty::Dict(k, v) => {
                let n = self.size()?;
                let mut entries: Vec<(Val, Val)> = Vec::new();
                let mut seen = std::collections::BTreeSet::new();
                for _ in 0..n {
                    let kat = self.pos;
                    let key = self.decode(k)?;
                    let value = self.decode(v)?;
                    if !seen.insert(key.clone()) {
                        return Err(RefErr::DuplicateKey { at: kat });
                    }
                    entries.push((key, value));
                }
                Ok(Val::Dict(entries))
            }
            Ty::Struct(_, fields) => Ok(Val::Struct(self.fields(fields)?)),
            Ty::Enum(_, variants) => {
                let d = self.var(true)?;
                if d < 0 || d as usize >= variants.len() {
                    return Err(RefErr::IllegalEnumerator { at, value: d });
                }
                let f = self.fields(&variants[d as usize].1)?;
                Ok(Val::Enum(d as usize, f))
            }
            Ty::Named(name) => {
                let t = (self.schema)(name).ok_or(RefErr::UnknownType(name))?;
                self.decode(&t)
            }
            Ty::U8Enum(bound) => {
                let b = self.take(1)?[0];
                if b >= *bound {
                    Err(RefErr::IllegalEnumerator { at, value: b as i128 })
                } else {
                    Ok(Val::Int(b as i128))
                }
            }
            Ty::SkipTagged => {
                self.skip_tagged()?;
                Ok(Val::Unit)
            }
        }
    }
}

/// Decodes one value of `ty` from the front of `bytes`; returns it with the number of bytes consumed.
pub fn decode(ty: &Ty, bytes: &[u8]) -> Result<(Val, usize), RefErr> {
    let mut r = Reader::new(bytes);
    let v = r.decode(ty)?;
    Ok((v, r.pos))
}

// ------------------------------------------------------------------------------------------------------------------
// Encoding (used to build generator replies and valid encodings to corrupt).
// ------------------------------------------------------------------------------------------------------------------

pub struct Writer {
    pub out: Vec<u8>,
    pub schema: Schema,
}

impl Default for Writer {
    fn default() -> Self {
        Writer { out: Vec::new(), schema: no_schema }
    }
}

impl Writer {
    pub fn new() -> Self {
        Self::default()
    }

    pub fn fixed(&mut self, v: i128, n: usize) {
        let raw = v as u128;
        for i in 0..n {
            self.out.push((raw >> (8 * i)) as u8);
        }
    }

    /// Shortest variable-width form. `width_override` forces 1/2/4/8 bytes (non-minimal encodings are legal input).
    pub fn var_signed(&mut self, v: i128, width_override: Option<usize>) {
        let width = width_override.unwrap_or_else(|| {
            if (-(1 << 5)..(1 << 5)).contains(&v) {
                1
            } else if (-(1 << 13)..(1 << 13)).contains(&v) {
                2
            } else if (-(1 << 29)..(1 << 29)).contains(&v) {
                4
            } else {
                8
            }
        });
        let code = width.trailing_zeros() as i128;
        self.fixed((v << 2) | code, width);
    }

    pub fn var_unsigned(&mut self, v: u128, width_override: Option<usize>) {
        let width = width_override.unwrap_or_else(|| {
            if v < (1 << 6) {
                1
            } else if v < (1 << 14) {
                2
            } else if v < (1 << 30) {
                4
            } else {
                8
            }
        });
        let code = width.trailing_zeros() as u128;
        self.fixed(((v << 2) | code) as i128, width);
    }

    pub fn size(&mut self, n: usize) {
        self.var_unsigned(n as u128, None);
    }

    pub fn string(&mut self, s: &str) {
        self.size(s.len());
        self.out.extend_from_slice(s.as_bytes());
    }

    pub fn bytes_as_string(&mut self, b: &[u8]) {
        self.size(b.len());
        self.out.extend_from_slice(b);
    }

    pub fn tag_end(&mut self) {
        self.out.push(0xFC); // varint -1 on one byte
    }

    fn fields(&mut self, fields: &[Field], vals: &[Option<Val>]) {
        let opt: Vec<bool> =
            fields.iter().zip(vals).filter(|(f, _)| f.optional).map(|(_, v)| v.is_some()).collect();
        if !opt.is_empty() {
            let mut raw = vec![0u8; (opt.len() + 7) / 8];
            for (i, p) in opt.iter().enumerate() {
                if *p {
                    raw[i / 8] |= 1 << (i % 8);
                }
            }
            self.out.extend_from_slice(&raw);
        }
        for (f, v) in fields.iter().zip(vals) {
            if let Some(v) = v {
                self.encode(&f.ty, v);
            }
        }
        self.tag_end();
    }

    pub fn encode(&mut self, ty: &Ty, v: &Val) {
        match (ty, v) {
            (Ty::Bool, Val::Bool(b)) => self.out.push(*b as u8),
            (Ty::U8 | Ty::I8 | Ty::U8Enum(_), Val::Int(i)) => self.fixed(*i, 1),
            (Ty::U16 | Ty::I16, Val::Int(i)) => self.fixed(*i, 2),
            (Ty::U32 | Ty::I32, Val::Int(i)) => self.fixed(*i, 4),
            (Ty::U64 | Ty::I64, Val::Int(i)) => self.fixed(*i, 8),
            (Ty::F32, Val::F32(b)) => self.fixed(*b as i128, 4),
            (Ty::F64, Val::F64(b)) => self.fixed(*b as i128, 8),
            (Ty::VarI32 | Ty::VarI62, Val::Int(i)) => self.var_signed(*i, None),
            (Ty::VarU32 | Ty::VarU62 | Ty::Size, Val::Int(i)) => self.var_unsigned(*i as u128, None),
            (Ty::Str, Val::Str(s)) => self.string(s),
            (Ty::Seq(inner), Val::Seq(items)) => {
                self.size(items.len());
                for i in items {
                    self.encode(inner, i);
                }
            }
            (Ty::Dict(k, v), Val::Dict(entries)) => {
                self.size(entries.len());
                for (a, b) in entries {
                    self.encode(k, a);
                    self.encode(v, b);
                }
            }
            (Ty::Struct(_, fields), Val::Struct(vals)) => self.fields(fields, vals),
            (Ty::Enum(_, variants), Val::Enum(d, vals)) => {
                self.var_signed(*d as i128, None);
                self.fields(&variants[*d].1, vals);
            }
            (Ty::Named(name), v) => {
                let t = (self.schema)(name).expect("unknown named type");
                self.encode(&t, v);
            }
            (Ty::SkipTagged, Val::Unit) => self.tag_end(),
            (t, v) => panic!("refcodec: value {v:?} does not fit type {t:?}"),
        }
    }
}

pub fn encode(ty: &Ty, v: &Val) -> Vec<u8> {
    let mut w = Writer::new();
    w.encode(ty, v);
    w.out
}

#[cfg(test)]
mod tests {
    use super::*;

    #[test]
    fn varints() {
        // Examples from the Slice2 encoding documentation / slice-codec's own tests.
        let mut w = Writer::new();
        w.var_unsigned(63, None);
        assert_eq!(w.out, [0xFC]);
        let mut w = Writer::new();
        w.var_unsigned(64, None);
        assert_eq!(w.out, [0x01, 0x01]);
        let mut w = Writer::new();
        w.var_signed(-1, None);
        assert_eq!(w.out, [0xFC]);
        let mut w = Writer::new();
        w.var_signed(-33, None);
        assert_eq!(w.out, [0x7D, 0xFF]);
        for v in [-1i128, 0, 1, 31, 32, -32, -33, 8191, 8192, -8192, -8193, 1 << 29, -(1 << 29) - 1, (1 << 61) - 1, -(1 << 61)] {
            let mut w = Writer::new();
            w.var_signed(v, None);
            let mut r = Reader::new(&w.out);
            assert_eq!(r.var(true).unwrap(), v, "{v}");
            assert_eq!(r.remaining(), 0);
        }
        for v in [0u128, 63, 64, 16383, 16384, (1 << 30) - 1, 1 << 30, (1 << 62) - 1] {
            let mut w = Writer::new();
            w.var_unsigned(v, None);
            let mut r = Reader::new(&w.out);
            assert_eq!(r.var(false).unwrap(), v as i128);
            assert_eq!(r.remaining(), 0);
        }
    }

    #[test]
    fn strict() {
        assert!(matches!(decode(&Ty::Bool, &[2]), Err(RefErr::IllegalBool { .. })));
        assert!(matches!(decode(&Ty::Str, &[4, 0xff]), Err(RefErr::InvalidUtf8 { .. })));
        assert!(matches!(decode(&Ty::Str, &[8, 0x41]), Err(RefErr::Eob { .. })));
        let d = Ty::Dict(Box::new(Ty::U8), Box::new(Ty::U8));
        assert!(matches!(decode(&d, &[8, 1, 1, 1, 2]), Err(RefErr::DuplicateKey { .. })));
        assert_eq!(decode(&d, &[8, 1, 1, 2, 2, 9]).unwrap().1, 5);
        // varint32 out of range: 2^31 on 8 bytes
        let mut w = Writer::new();
        w.var_signed(1 << 31, None);
        assert!(matches!(decode(&Ty::VarI32, &w.out), Err(RefErr::OutOfRange { .. })));
    }

    #[test]
    fn struct_with_optional() {
        let t = Ty::Struct("D", vec![field("level", Ty::U8Enum(3)), field("m", Ty::Str), opt_field("s", Ty::Str)]);
        let v = Val::Struct(vec![Some(Val::Int(1)), Some(Val::Str("hi".into())), None]);
        let b = encode(&t, &v);
        assert_eq!(b, [0, 1, 8, b'h', b'i', 0xFC]);
        assert_eq!(decode(&t, &b).unwrap(), (v, 6));
    }
}
