//! Small shared helpers: the one PRNG every engine derives its choices from, hashing and hex.

/// xoshiro256** seeded through splitmix64. Own implementation so that one integer reproduces a run in every engine
/// (runner, simstd kernel, codecsim) without depending on the version of an external crate.
#[derive(Clone, Debug)]
pub struct Rng {
    s: [u64; 4],
}

pub fn splitmix64(x: &mut u64) -> u64 {
    *x = x.wrapping_add(0x9E37_79B9_7F4A_7C15);
    let mut z = *x;
    z = (z ^ (z >> 30)).wrapping_mul(0xBF58_476D_1CE4_E5B9);
    z = (z ^ (z >> 27)).wrapping_mul(0x94D0_49BB_1331_11EB);
    z ^ (z >> 31)
}

impl Rng {
    pub fn new(seed: u64) -> Self {
        let mut x = seed;
        let s = [splitmix64(&mut x), splitmix64(&mut x), splitmix64(&mut x), splitmix64(&mut x)];
        Rng { s }
    }

    /// Derives an independent stream, e.g. `Rng::derive(seed, "world", run_index)`.
    pub fn derive(seed: u64, label: &str, index: u64) -> Self {
        let mut h = fnv1a(label.as_bytes()) ^ seed.rotate_left(17);
        let a = splitmix64(&mut h);
        let mut i = index ^ 0xD1B5_4A32_D192_ED03;
        let b = splitmix64(&mut i);
        Rng::new(a ^ b.rotate_left(29) ^ seed)
    }

    pub fn next_u64(&mut self) -> u64 {
        let result = self.s[1].wrapping_mul(5).rotate_left(7).wrapping_mul(9);
        let t = self.s[1] << 17;
        self.s[2] ^= self.s[0];
        self.s[3] ^= self.s[1];
        self.s[1] ^= self.s[2];
        self.s[0] ^= self.s[3];
        self.s[2] ^= t;
        self.s[3] = self.s[3].rotate_left(45);
        result
    }

    /// Uniform in `0..n` (n > 0).
    pub fn below(&mut self, n: u64) -> u64 {
        debug_assert!(n > 0);
        // Multiply-shift; the bias is irrelevant for our purposes and it keeps the stream position deterministic.
        ((self.next_u64() as u128 * n as u128) >> 64) as u64
    }

    pub fn range(&mut self, lo: u64, hi_inclusive: u64) -> u64 {
        lo + self.below(hi_inclusive - lo + 1)
    }

    pub fn usize_below(&mut self, n: usize) -> usize {
        self.below(n as u64) as usize
    }

    /// True with probability num/den.
    pub fn chance(&mut self, num: u64, den: u64) -> bool {
        self.below(den) < num
    }

    pub fn pick<'a, T>(&mut self, items: &'a [T]) -> &'a T {
        &items[self.usize_below(items.len())]
    }

    pub fn shuffle<T>(&mut self, items: &mut [T]) {
        for i in (1..items.len()).rev() {
            let j = self.usize_below(i + 1);
            items.swap(i, j);
        }
    }

    pub fn bytes(&mut self, n: usize) -> Vec<u8> {
        let mut v = Vec::with_capacity(n);
        while v.len() < n {
            let x = self.next_u64().to_le_bytes();
            let take = (n - v.len()).min(8);
            v.extend_from_slice(&x[..take]);
        }
        v
    }
}

pub fn fnv1a(bytes: &[u8]) -> u64 {
    let mut h: u64 = 0xcbf2_9ce4_8422_2325;
    for b in bytes {
        h ^= *b as u64;
        h = h.wrapping_mul(0x0000_0100_0000_01B3);
    }
    h
}

/// Incremental FNV-1a, used for trace digests.
#[derive(Clone, Copy, Debug)]
pub struct Fnv(pub u64);
impl Default for Fnv {
    fn default() -> Self {
        Fnv(0xcbf2_9ce4_8422_2325)
    }
}
impl Fnv {
    pub fn update(&mut self, bytes: &[u8]) {
        for b in bytes {
            self.0 ^= *b as u64;
            self.0 = self.0.wrapping_mul(0x0000_0100_0000_01B3);
        }
    }
    pub fn update_u64(&mut self, x: u64) {
        self.update(&x.to_le_bytes());
    }
}

pub fn hex(bytes: &[u8]) -> String {
    const D: &[u8; 16] = b"0123456789abcdef";
    let mut s = String::with_capacity(bytes.len() * 2);
    for b in bytes {
        s.push(D[(b >> 4) as usize] as char);
        s.push(D[(b & 15) as usize] as char);
    }
    s
}

pub fn unhex(s: &str) -> Option<Vec<u8>> {
    let b = s.as_bytes();
    if b.len() % 2 != 0 {
        return None;
    }
    let v = |c: u8| -> Option<u8> {
        match c {
            b'0'..=b'9' => Some(c - b'0'),
            b'a'..=b'f' => Some(c - b'a' + 10),
            b'A'..=b'F' => Some(c - b'A' + 10),
            _ => None,
        }
    };
    let mut out = Vec::with_capacity(b.len() / 2);
    for p in b.chunks(2) {
        out.push(v(p[0])? << 4 | v(p[1])?);
    }
    Some(out)
}

#[cfg(test)]
mod tests {
    use super::*;
    #[test]
    fn rng_is_deterministic_and_spread() {
        let mut a = Rng::new(1);
        let mut b = Rng::new(1);
        for _ in 0..100 {
            assert_eq!(a.next_u64(), b.next_u64());
        }
        let mut c = Rng::new(2);
        assert_ne!(Rng::new(1).next_u64(), c.next_u64());
        for _ in 0..1000 {
            assert!(c.below(7) < 7);
        }
    }
    #[test]
    fn hex_round_trip() {
        let v = vec![0u8, 1, 0xab, 0xff];
        assert_eq!(unhex(&hex(&v)).unwrap(), v);
    }
}
