//! Independent reference implementation of the Slice2 wire format and of the `Compiler` schema, plus the shared
//! PRNG. Used by the simulation kernel (to know when a simulated generator has its whole request), by the runner's
//! oracles (to take requests and replies apart) and by codecsim (as the strict reference decoder).

pub mod dynval;
pub mod schema;
pub mod util;
