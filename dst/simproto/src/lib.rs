//! Scenario = everything that determines one simulated execution of the compiler (the replay file).
//! Trace    = what the kernel and the libc seam observed, one JSON object per line.

use serde::{Deserialize, Serialize};
use std::collections::BTreeMap;

// ------------------------------------------------------------------------------------------------------------------
// World
// ------------------------------------------------------------------------------------------------------------------

#[derive(Clone, Debug, Serialize, Deserialize, PartialEq, Eq)]
#[serde(tag = "kind", rename_all = "snake_case")]
pub enum EntryKind {
    File {
        /// text content; `hex` overrides it for non-UTF-8 content
        #[serde(default)]
        content: String,
        #[serde(default, skip_serializing_if = "Option::is_none")]
        hex: Option<String>,
    },
    Dir,
    Symlink { target: String },
}

#[derive(Clone, Debug, Serialize, Deserialize, PartialEq, Eq)]
pub struct Entry {
    /// relative to the world root
    pub path: String,
    #[serde(flatten)]
    pub kind: EntryKind,
    /// permission bits; applied after the whole tree exists. None = 0644 / 0755.
    #[serde(default, skip_serializing_if = "Option::is_none")]
    pub mode: Option<u32>,
}

#[derive(Clone, Debug, Default, Serialize, Deserialize, PartialEq, Eq)]
pub struct World {
    /// in creation order (tmpfs lists a directory in reverse creation order)
    pub entries: Vec<Entry>,
    /// working directory of the compiler, relative to the root ("" = the root itself)
    #[serde(default)]
    pub cwd: String,
}

// ------------------------------------------------------------------------------------------------------------------
// Simulated generators
// ------------------------------------------------------------------------------------------------------------------

#[derive(Clone, Debug, Serialize, Deserialize, PartialEq, Eq)]
#[serde(tag = "op", rename_all = "snake_case")]
pub enum ScriptOp {
    /// read stdin until one complete, self-delimiting request has arrived (what a generator that parses does)
    ReadRequest,
    /// one read() of at most n bytes
    Read { n: usize },
    /// read until n bytes have arrived or EOF
    ReadExact { n: usize },
    ReadToEof,
    /// write all of these bytes to fd 1 or 2 (blocks while the pipe is full; SIGPIPE if the reader is gone)
    Write { fd: u8, hex: String },
    /// write n copies of a byte
    WriteFill { fd: u8, n: usize, byte: u8 },
    Close { fd: u8 },
    Exit { code: i32 },
    Die { signal: i32 },
    Yield { n: usize },
}

#[derive(Clone, Debug, Default, Serialize, Deserialize, PartialEq, Eq)]
pub struct Generator {
    /// Some(errno) = spawn fails synchronously with this errno
    #[serde(default, skip_serializing_if = "Option::is_none")]
    pub spawn_errno: Option<i32>,
    #[serde(default)]
    pub script: Vec<ScriptOp>,
    #[serde(default = "default_cap")]
    pub stdin_cap: usize,
    #[serde(default = "default_cap")]
    pub stdout_cap: usize,
    #[serde(default = "default_cap")]
    pub stderr_cap: usize,
    /// Some(errno) = collecting the output fails with an OS error after the process has finished
    #[serde(default, skip_serializing_if = "Option::is_none")]
    pub collect_errno: Option<i32>,
    /// free text for humans: which behaviour of the catalogue this is
    #[serde(default)]
    pub label: String,
}

fn default_cap() -> usize {
    65536
}

// ------------------------------------------------------------------------------------------------------------------
// File-system faults (libc seam)
// ------------------------------------------------------------------------------------------------------------------

#[derive(Clone, Debug, Serialize, Deserialize, PartialEq, Eq)]
#[serde(rename_all = "snake_case")]
pub enum FsOp {
    /// open for reading
    OpenRead,
    /// open for writing / creating
    OpenWrite,
    Read,
    Write,
    /// stat family and realpath
    Stat,
    Realpath,
    Opendir,
    /// fails the listing after `after` entries have been returned
    Readdir,
    Rename,
    Mkdir,
}

#[derive(Clone, Debug, Serialize, Deserialize, PartialEq, Eq)]
#[serde(tag = "action", rename_all = "snake_case")]
pub enum FsAction {
    /// fail with this errno
    Errno { errno: i32 },
    /// transfer at most n bytes (legal short read / short write)
    Short { n: usize },
    /// fail once with EINTR; the retry succeeds
    Eintr,
}

#[derive(Clone, Debug, Serialize, Deserialize, PartialEq, Eq)]
pub struct FsFault {
    pub op: FsOp,
    /// canonical path relative to the world root ("" matches any path below the root)
    pub path: String,
    /// which matching call is hit: 1 = the first. For Readdir: number of entries delivered before the failure + 1.
    #[serde(default = "one")]
    pub nth: u32,
    #[serde(flatten)]
    pub action: FsAction,
}

fn one() -> u32 {
    1
}

// ------------------------------------------------------------------------------------------------------------------
// The part of the scenario the kernel reads
// ------------------------------------------------------------------------------------------------------------------

#[derive(Clone, Copy, Debug, Serialize, Deserialize, PartialEq, Eq, Default)]
#[serde(rename_all = "snake_case")]
pub enum Sched {
    /// generators run only when the compiler blocks
    CompilerFirst,
    /// generators run as far as they can before every compiler operation
    GeneratorsEager,
    /// seeded: a random number of generator steps before every compiler operation
    #[default]
    Random,
}

#[derive(Clone, Debug, Default, Serialize, Deserialize, PartialEq, Eq)]
pub struct Buggify {
    /// writes to a generator's stdin may be cut short (any count >= 1)
    #[serde(default)]
    pub short_pipe_write: bool,
    /// writes to a generator's stdin may fail with EINTR (retry succeeds)
    #[serde(default)]
    pub eintr_pipe_write: bool,
    /// reads of files below the root may be short or hit EINTR (std must absorb both)
    #[serde(default)]
    pub transparent_file_read: bool,
    /// writes to files below the root may be short or hit EINTR (write_all must absorb both)
    #[serde(default)]
    pub transparent_file_write: bool,
}

#[derive(Clone, Debug, Serialize, Deserialize, PartialEq, Eq)]
pub struct Sim {
    /// absolute path of the world root; filled in by the runner for each execution
    #[serde(default)]
    pub root: String,
    /// keys every RandomState of the process (getrandom seam)
    #[serde(default)]
    pub hash_seed: u64,
    /// bytes leaked on the heap before main starts (address-space perturbation)
    #[serde(default)]
    pub heap_shift: usize,
    /// program string given to Command::new -> behaviours, consumed in spawn order
    #[serde(default)]
    pub generators: BTreeMap<String, Vec<Generator>>,
    #[serde(default)]
    pub sched: Sched,
    /// explicit choices, consumed first; afterwards the PRNG seeded with choice_seed continues
    #[serde(default)]
    pub choices: Vec<u64>,
    #[serde(default)]
    pub choice_seed: u64,
    #[serde(default)]
    pub buggify: Buggify,
    #[serde(default)]
    pub fs_faults: Vec<FsFault>,
    #[serde(default = "default_budget")]
    pub step_budget: u64,
}

fn default_budget() -> u64 {
    200_000
}

impl Default for Sim {
    fn default() -> Self {
        Sim {
            root: String::new(),
            hash_seed: 0,
            heap_shift: 0,
            generators: BTreeMap::new(),
            sched: Sched::default(),
            choices: Vec::new(),
            choice_seed: 0,
            buggify: Buggify::default(),
            fs_faults: Vec::new(),
            step_budget: default_budget(),
        }
    }
}

#[derive(Clone, Debug, Default, Serialize, Deserialize, PartialEq)]
pub struct Scenario {
    pub world: World,
    /// arguments of the compiler (without argv[0])
    pub argv: Vec<String>,
    pub sim: Sim,
    /// free-form description for humans (template names, behaviour labels, ...)
    #[serde(default)]
    pub note: String,
    /// what the runner needs to judge the run without re-deriving it from argv (generator paths and arguments as
    /// intended, output directory, template class, ...). Opaque to the kernel.
    #[serde(default)]
    pub meta: serde_json::Value,
}

// ------------------------------------------------------------------------------------------------------------------
// Trace
// ------------------------------------------------------------------------------------------------------------------

/// One line of the trace. `seq` is the kernel's global event sequence number.
#[derive(Clone, Debug, Serialize, Deserialize, PartialEq, Eq)]
pub struct Event {
    pub seq: u64,
    #[serde(flatten)]
    pub kind: Ev,
}

#[derive(Clone, Debug, Serialize, Deserialize, PartialEq, Eq)]
#[serde(tag = "ev", rename_all = "snake_case")]
pub enum Ev {
    Init { hash_seed: u64, heap_shift: usize },
    /// a consumed choice: site, bound, value
    Choice { site: String, bound: u64, value: u64 },
    Spawn { gen: usize, program: String, args: Vec<String>, stdin: String, stdout: String, stderr: String, result: i32, label: String },
    /// compiler wrote to a generator's stdin: requested, accepted (or -errno), digest of all bytes accepted so far
    StdinWrite { gen: usize, requested: usize, result: i64, total: usize, fault: String },
    StdinClose { gen: usize, total: usize, hex: String, #[serde(default)] at_exit: bool },
    /// the compiler blocked in this operation and generators had to run
    Blocked { gen: usize, op: String },
    /// a generator step (only state changes are logged)
    Gen { gen: usize, what: String },
    GenExit { gen: usize, status: i32, pending_stdin: usize },
    Wait { gen: usize, op: String, status: i32, stdout_len: usize, stderr_len: usize, stdout_hex: String, stderr_hex: String, result: i32 },
    Kill { gen: usize },
    PipeRead { gen: usize, fd: u8, requested: usize, result: i64, #[serde(default)] hex: String },
    /// file-system call below the world root
    Fs { op: String, path: String, #[serde(default)] path2: String, flags: String, result: i64, fault: String },
    Hang { detail: String },
    Budget { steps: u64 },
    /// process ends normally (atexit); unreaped = generators spawned but never waited for
    End { steps: u64, unreaped: Vec<usize>, #[serde(default)] max_threads: usize },
}

pub const EXIT_HANG: i32 = 97;
pub const EXIT_BUDGET: i32 = 98;
pub const EXIT_SEAM_MISUSE: i32 = 96;
