//! C12 — output targets as an append-only log, input sources as a read-only window.
//!
//! Histories of operations are executed on the real buffer types in lock-step with a reference model; the complete
//! underlying memory (window + canaries on both sides) is compared after every operation.

use crate::alloc_seam;
use serde::{Deserialize, Serialize};
use slice_codec::buffer::slice::{SliceInputSource, SliceOutputTarget};
use slice_codec::buffer::vec::VecOutputTarget;
use slice_codec::buffer::{InputSource, OutputTarget, Reservation};
use std::panic::{catch_unwind, AssertUnwindSafe};

pub const CANARY_L: u8 = 0xC5;
pub const CANARY_R: u8 = 0x5C;
pub const UNWRITTEN: u8 = 0xEE;
const PAD: usize = 24;

#[derive(Clone, Debug, Serialize, Deserialize, PartialEq, Eq)]
#[serde(tag = "op", rename_all = "snake_case")]
pub enum Op {
    /// write_byte
    Wb,
    /// write_bytes_exact of k bytes
    W { k: usize },
    /// reserve_space(k); `huge` selects an absurd size instead (0 = no)
    R { k: usize, #[serde(default)] huge: u8 },
    /// write k bytes into the r-th reservation made so far
    Wr { r: usize, k: usize },
    /// remaining()
    Rem,
    // input side
    Pb,
    Rb,
    /// peek_bytes_exact::<N>
    Pn { n: usize },
    Rn { n: usize },
    /// peek_byte_slice_exact(k)
    Ps { k: usize, #[serde(default)] huge: u8 },
    Rs { k: usize, #[serde(default)] huge: u8 },
    /// read_bytes_into_exact(dest of k bytes)
    Ri { k: usize },
}

#[derive(Clone, Copy, Debug, Serialize, Deserialize, PartialEq, Eq)]
#[serde(rename_all = "snake_case")]
pub enum Target {
    SliceOut,
    VecOut,
    SliceIn,
}

#[derive(Clone, Debug, Serialize, Deserialize, PartialEq, Eq)]
pub struct History {
    pub target: Target,
    /// fixed targets / input: window size. growable target: ignored.
    pub cap: usize,
    /// growable target: bytes already in the vector, and spare capacity reserved up front.
    #[serde(default)]
    pub prefix: usize,
    #[serde(default)]
    pub spare: usize,
    pub data_seed: u64,
    pub ops: Vec<Op>,
    /// index of an op (growable target only) during which the first allocation is made to fail
    #[serde(default)]
    pub fail_alloc_at: Option<usize>,
}

fn huge_size(h: u8) -> Option<usize> {
    match h {
        0 => None,
        1 => Some(usize::MAX),
        2 => Some(usize::MAX / 2 + 1),
        3 => Some(isize::MAX as usize),
        _ => Some(1 << 62),
    }
}

/// Data bytes never collide with the canaries, the "unwritten" filler or zero.
struct DataStream(u64);
impl DataStream {
    fn next(&mut self) -> u8 {
        let x = refcodec::util::splitmix64(&mut self.0);
        1 + (x % 0xBF) as u8
    }
    fn take(&mut self, k: usize) -> Vec<u8> {
        (0..k).map(|_| self.next()).collect()
    }
}

#[derive(Debug)]
pub struct Violation {
    pub class: String,
    pub detail: String,
    pub at_op: usize,
}

fn viol(class: &str, at_op: usize, detail: String) -> Violation {
    Violation { class: class.to_owned(), detail, at_op }
}

#[derive(Default, Debug, Clone)]
pub struct RunStats {
    pub ops: u64,
    pub failed_ops: u64,
    pub reservation_writes: u64,
    pub alloc_faults: u64,
    pub grows: u64,
    /// signature of the history: sequence of (op kind, result class)
    pub signature: u64,
}

fn render_error(e: &slice_codec::Error) -> Result<(), String> {
    let r = catch_unwind(AssertUnwindSafe(|| {
        let s = e.to_string();
        let d = format!("{e:?}");
        (s, d)
    }));
    match r {
        Ok((s, _)) if !s.is_empty() => Ok(()),
        Ok(_) => Err("error renders as an empty string".into()),
        Err(_) => Err("rendering the error panicked".into()),
    }
}

/// Executes one history. `Ok(stats)` = every invariant held after every operation.
pub fn run(h: &History) -> Result<RunStats, Violation> {
    match h.target {
        Target::SliceOut => run_slice_out(h),
        Target::VecOut => run_vec_out(h),
        Target::SliceIn => run_slice_in(h),
    }
}

fn sig_step(sig: &mut refcodec::util::Fnv, kind: u8, ok: bool, extra: u64) {
    sig.update(&[kind, ok as u8]);
    sig.update_u64(extra);
}

// ------------------------------------------------------------------------------------------------------------------
// Fixed-slice output target
// ------------------------------------------------------------------------------------------------------------------

struct Arena {
    mem: Vec<u8>,
    cap: usize,
}

impl Arena {
    fn new(cap: usize, fill: impl Fn(usize) -> u8) -> Self {
        let mut mem = vec![0u8; cap + 2 * PAD];
        for (i, b) in mem.iter_mut().enumerate() {
            *b = if i < PAD {
                CANARY_L
            } else if i < PAD + cap {
                fill(i - PAD)
            } else {
                CANARY_R
            };
        }
        Arena { mem, cap }
    }
    fn base(&mut self) -> *mut u8 {
        self.mem.as_mut_ptr()
    }
}

/// Reads the arena through the raw pointer while a target/source still borrows the window.
/// (Native runs only; the Miri leg inspects the arena after the borrower is gone.)
unsafe fn snapshot(base: *const u8, len: usize) -> Vec<u8> {
    let mut v = Vec::with_capacity(len);
    for i in 0..len {
        v.push(std::ptr::read_volatile(base.add(i)));
    }
    v
}

fn check_arena(snap: &[u8], expect_window: &[u8], at: usize) -> Result<(), Violation> {
    let cap = expect_window.len();
    if let Some(i) = snap[..PAD].iter().position(|b| *b != CANARY_L) {
        return Err(viol("write-before-start", at, format!("byte {} before the window was modified", PAD - i)));
    }
    if let Some(i) = snap[PAD + cap..].iter().position(|b| *b != CANARY_R) {
        return Err(viol("write-past-end", at, format!("byte {i} past the end of the window was modified")));
    }
    if &snap[PAD..PAD + cap] != expect_window {
        let i = (0..cap).find(|i| snap[PAD + i] != expect_window[*i]).unwrap();
        return Err(viol(
            "contents-differ-from-log",
            at,
            format!("offset {i}: target holds {:#04x}, the append-only log holds {:#04x}", snap[PAD + i], expect_window[i]),
        ));
    }
    Ok(())
}

fn run_slice_out(h: &History) -> Result<RunStats, Violation> {
    let cap = h.cap;
    let mut arena = Arena::new(cap, |_| UNWRITTEN);
    let base = arena.base();
    let total = arena.mem.len();
    // model
    let mut mem = vec![UNWRITTEN; cap];
    let mut pos = 0usize;
    let mut model_resv: Vec<std::ops::Range<usize>> = Vec::new();
    let mut data = DataStream(h.data_seed);
    let mut stats = RunStats::default();
    let mut sig = refcodec::util::Fnv::default();

    // SAFETY: the window lies inside the arena allocation, which outlives the target.
    let window: &mut [u8] = unsafe { std::slice::from_raw_parts_mut(base.add(PAD), cap) };
    let mut target = SliceOutputTarget::from(window);
    let mut resv: Vec<Reservation> = Vec::new();

    for (i, op) in h.ops.iter().enumerate() {
        stats.ops += 1;
        let (kind, real_ok, err): (u8, bool, Option<slice_codec::Error>);
        let expect_ok: bool;
        let mut extra = 0u64;
        match op {
            Op::Wb => {
                let b = data.next();
                expect_ok = pos < cap;
                let r = target.write_byte(b);
                if expect_ok {
                    mem[pos] = b;
                    pos += 1;
                }
                kind = 0;
                real_ok = r.is_ok();
                err = r.err();
            }
            Op::W { k } => {
                let bytes = data.take(*k);
                expect_ok = cap - pos >= *k;
                let r = target.write_bytes_exact(&bytes);
                if expect_ok {
                    mem[pos..pos + k].copy_from_slice(&bytes);
                    pos += k;
                }
                kind = 1;
                extra = *k as u64;
                real_ok = r.is_ok();
                err = r.err();
            }
            Op::R { k, huge } => {
                let k = huge_size(*huge).unwrap_or(*k);
                expect_ok = cap - pos >= k;
                let r = target.reserve_space(k);
                kind = 2;
                extra = k as u64;
                match r {
                    Ok(res) => {
                        real_ok = true;
                        err = None;
                        resv.push(res);
                        if expect_ok {
                            model_resv.push(pos..pos + k);
                            pos += k;
                        } else {
                            model_resv.push(0..0);
                        }
                    }
                    Err(e) => {
                        real_ok = false;
                        err = Some(e);
                    }
                }
            }
            Op::Wr { r, k } => {
                if resv.is_empty() {
                    continue;
                }
                let r = r % resv.len();
                let bytes = data.take(*k);
                let range = model_resv[r].clone();
                expect_ok = range.len() >= *k;
                let res = target.write_bytes_into_reserved_exact(&mut resv[r], &bytes);
                if expect_ok {
                    mem[range.start..range.start + k].copy_from_slice(&bytes);
                    model_resv[r].start += k;
                }
                stats.reservation_writes += 1;
                kind = 3;
                extra = (*k as u64) << 8 | r as u64;
                real_ok = res.is_ok();
                err = res.err();
            }
            Op::Rem => {
                let rem = target.remaining();
                if rem != cap - pos {
                    return Err(viol("position-differs", i, format!("remaining() = {rem}, model says {}", cap - pos)));
                }
                continue;
            }
            _ => continue,
        }
        sig_step(&mut sig, kind, real_ok, extra);
        if !real_ok {
            stats.failed_ops += 1;
        }
        if real_ok != expect_ok {
            let class = if real_ok { "accepted-op-that-does-not-fit" } else { "rejected-op-that-fits" };
            return Err(viol(class, i, format!("{op:?}: target says ok={real_ok}, model says ok={expect_ok} (pos {pos}, cap {cap})")));
        }
        if let Some(e) = &err {
            if let Err(m) = render_error(e) {
                return Err(viol("error-not-renderable", i, m));
            }
        }
        let rem = target.remaining();
        if rem != cap - pos {
            let class = if real_ok { "position-differs" } else { "failed-op-moved-position" };
            return Err(viol(class, i, format!("after {op:?}: remaining() = {rem}, model says {}", cap - pos)));
        }
        #[cfg(not(miri))]
        {
            let snap = unsafe { snapshot(base, total) };
            check_arena(&snap, &mem, i).map_err(|mut v| {
                if !real_ok {
                    v.class = format!("failed-op-changed-contents/{}", v.class);
                }
                v
            })?;
        }
    }
    drop(target);
    let _ = total;
    let snap = arena.mem.clone();
    check_arena(&snap, &mem, h.ops.len())?;
    stats.signature = sig.0;
    Ok(stats)
}

// ------------------------------------------------------------------------------------------------------------------
// Growable output target
// ------------------------------------------------------------------------------------------------------------------

fn run_vec_out(h: &History) -> Result<RunStats, Violation> {
    let mut data = DataStream(h.data_seed);
    let prefix: Vec<u8> = data.take(h.prefix);
    let mut vec: Vec<u8> = Vec::new();
    vec.extend_from_slice(&prefix);
    if h.spare > 0 {
        vec.reserve_exact(h.spare);
    }
    let mut model: Vec<u8> = prefix.clone();
    let mut model_resv: Vec<std::ops::Range<usize>> = Vec::new();
    let mut stats = RunStats::default();
    let mut sig = refcodec::util::Fnv::default();
    let vec_ptr: *mut Vec<u8> = &mut vec;

    // SAFETY: `vec` outlives `target`; we only look at it through `vec_ptr` between operations (native runs).
    let mut target = VecOutputTarget::from(unsafe { &mut *vec_ptr });
    let mut resv: Vec<Reservation> = Vec::new();

    for (i, op) in h.ops.iter().enumerate() {
        stats.ops += 1;
        let arm = h.fail_alloc_at == Some(i);
        let kind: u8;
        let mut extra = 0u64;
        let real_ok: bool;
        let err: Option<slice_codec::Error>;
        // What the model would do if the operation is admitted.
        let mut apply: Box<dyn FnMut(&mut Vec<u8>, &mut Vec<std::ops::Range<usize>>)>;
        // true = can never succeed; false = succeeds unless the allocator fails
        let mut must_fail = false;
        let a: alloc_seam::AllocStats;

        match op {
            Op::Wb => {
                let b = data.next();
                alloc_seam::begin(arm as usize, 0);
                let r = target.write_byte(b);
                a = alloc_seam::end();
                kind = 0;
                real_ok = r.is_ok();
                err = r.err();
                apply = Box::new(move |m, _| m.push(b));
            }
            Op::W { k } => {
                let bytes = data.take(*k);
                alloc_seam::begin(arm as usize, 0);
                let r = target.write_bytes_exact(&bytes);
                a = alloc_seam::end();
                kind = 1;
                extra = *k as u64;
                real_ok = r.is_ok();
                err = r.err();
                apply = Box::new(move |m, _| m.extend_from_slice(&bytes));
            }
            Op::R { k, huge } => {
                let k = huge_size(*huge).unwrap_or(*k);
                must_fail = huge_size(*huge).is_some();
                alloc_seam::begin(arm as usize, 0);
                let r = target.reserve_space(k);
                a = alloc_seam::end();
                kind = 2;
                extra = k as u64;
                match r {
                    Ok(res) => {
                        real_ok = true;
                        err = None;
                        resv.push(res);
                    }
                    Err(e) => {
                        real_ok = false;
                        err = Some(e);
                    }
                }
                apply = Box::new(move |m, rs| {
                    rs.push(m.len()..m.len() + k);
                    m.resize(m.len() + k, 0);
                });
            }
            Op::Wr { r, k } => {
                if resv.is_empty() {
                    continue;
                }
                let r = r % resv.len();
                let bytes = data.take(*k);
                let range = model_resv[r].clone();
                must_fail = range.len() < *k;
                alloc_seam::begin(0, 0);
                let res = target.write_bytes_into_reserved_exact(&mut resv[r], &bytes);
                a = alloc_seam::end();
                stats.reservation_writes += 1;
                kind = 3;
                extra = (*k as u64) << 8 | r as u64;
                real_ok = res.is_ok();
                err = res.err();
                apply = Box::new(move |m, rs| {
                    let s = rs[r].start;
                    m[s..s + bytes.len()].copy_from_slice(&bytes);
                    rs[r].start += bytes.len();
                });
            }
            Op::Rem => {
                let _ = target.remaining();
                continue;
            }
            _ => continue,
        }
        stats.alloc_faults += a.faults as u64;
        if a.requests > 0 {
            stats.grows += 1;
        }
        sig_step(&mut sig, kind, real_ok, extra ^ ((a.faults as u64) << 40));
        if a.corruptions > 0 {
            return Err(viol("heap-red-zone-overwritten", i, format!("{op:?} wrote outside the vector's allocation")));
        }
        // Verdict of the model: the op fits unless it can never fit; an injected allocation failure may fail it.
        let fault = a.faults > 0 || a.refused > 0;
        if real_ok {
            if must_fail {
                return Err(viol("accepted-op-that-does-not-fit", i, format!("{op:?} succeeded")));
            }
            apply(&mut model, &mut model_resv);
        } else {
            stats.failed_ops += 1;
            if !must_fail && !fault {
                return Err(viol("rejected-op-that-fits", i, format!("{op:?} failed without an allocation failure: {:?}", err.as_ref().map(|e| format!("{e:?}")))));
            }
        }
        if let Some(e) = &err {
            if let Err(m) = render_error(e) {
                return Err(viol("error-not-renderable", i, m));
            }
        }
        #[cfg(not(miri))]
        {
            // contents == prefix ++ log after every operation; red zones around the allocation intact
            let (ptr, len, capacity) = unsafe { (*vec_ptr).raw_peek() };
            if len > capacity {
                return Err(viol("length-exceeds-capacity", i, format!("len {len} > capacity {capacity}")));
            }
            if capacity > 0 && !unsafe { alloc_seam::check_block(ptr) } {
                let _ = alloc_seam::end();
                return Err(viol("heap-red-zone-overwritten", i, format!("after {op:?}")));
            }
            let snap = unsafe { snapshot(ptr, len) };
            if snap != model {
                let class = if real_ok { "contents-differ-from-log" } else { "failed-op-changed-contents" };
                let j = (0..snap.len().min(model.len())).find(|j| snap[*j] != model[*j]);
                return Err(viol(class, i, format!("after {op:?}: len {} vs log {}, first difference at {:?}", snap.len(), model.len(), j)));
            }
        }
    }
    drop(target);
    if vec != model {
        return Err(viol("contents-differ-from-log", h.ops.len(), format!("final: len {} vs log {}", vec.len(), model.len())));
    }
    stats.signature = sig.0;
    Ok(stats)
}

trait VecPeek {
    fn raw_peek(&self) -> (*const u8, usize, usize);
}
impl VecPeek for Vec<u8> {
    fn raw_peek(&self) -> (*const u8, usize, usize) {
        (self.as_ptr(), self.len(), self.capacity())
    }
}

// ------------------------------------------------------------------------------------------------------------------
// Slice input source
// ------------------------------------------------------------------------------------------------------------------

macro_rules! const_n {
    ($n:expr, $src:ident, $method:ident) => {
        match $n {
            0 => $src.$method::<0>().map(|a| a.to_vec()),
            1 => $src.$method::<1>().map(|a| a.to_vec()),
            2 => $src.$method::<2>().map(|a| a.to_vec()),
            3 => $src.$method::<3>().map(|a| a.to_vec()),
            4 => $src.$method::<4>().map(|a| a.to_vec()),
            8 => $src.$method::<8>().map(|a| a.to_vec()),
            16 => $src.$method::<16>().map(|a| a.to_vec()),
            _ => $src.$method::<5>().map(|a| a.to_vec()),
        }
    };
}
fn norm_n(n: usize) -> usize {
    match n {
        0 | 1 | 2 | 3 | 4 | 8 | 16 => n,
        _ => 5,
    }
}

fn run_slice_in(h: &History) -> Result<RunStats, Violation> {
    let cap = h.cap;
    let mut d = DataStream(h.data_seed);
    let content: Vec<u8> = d.take(cap);
    let c2 = content.clone();
    let arena = Arena::new(cap, move |i| c2[i]);
    let before = arena.mem.clone();
    let window: &[u8] = &arena.mem[PAD..PAD + cap];
    let mut src = SliceInputSource::from(window);
    let mut pos = 0usize;
    let mut stats = RunStats::default();
    let mut sig = refcodec::util::Fnv::default();

    for (i, op) in h.ops.iter().enumerate() {
        stats.ops += 1;
        let rem_before = src.remaining();
        if rem_before != cap - pos {
            return Err(viol("position-differs", i, format!("remaining() = {rem_before}, model says {}", cap - pos)));
        }
        // (kind, consume?, requested, result bytes)
        let (kind, consume, k, res): (u8, bool, usize, Result<Vec<u8>, slice_codec::Error>) = match op {
            Op::Pb => (10, false, 1, src.peek_byte().map(|b| vec![b])),
            Op::Rb => (11, true, 1, src.read_byte().map(|b| vec![b])),
            Op::Pn { n } => (12, false, norm_n(*n), const_n!(norm_n(*n), src, peek_bytes_exact)),
            Op::Rn { n } => (13, true, norm_n(*n), const_n!(norm_n(*n), src, read_bytes_exact)),
            Op::Ps { k, huge } => {
                let k = huge_size(*huge).unwrap_or(*k);
                (14, false, k, src.peek_byte_slice_exact(k).map(|s| s.to_vec()))
            }
            Op::Rs { k, huge } => {
                let k = huge_size(*huge).unwrap_or(*k);
                (15, true, k, src.read_byte_slice_exact(k).map(|s| s.to_vec()))
            }
            Op::Ri { k } => {
                // destination with its own canaries: the copy must fill exactly the destination
                let mut dest = vec![CANARY_L; *k + 2 * PAD];
                let r = src.read_bytes_into_exact(&mut dest[PAD..PAD + *k]);
                if dest[..PAD].iter().chain(dest[PAD + *k..].iter()).any(|b| *b != CANARY_L) {
                    return Err(viol("write-outside-destination", i, format!("{op:?}")));
                }
                (16, true, *k, r.map(|_| dest[PAD..PAD + *k].to_vec()))
            }
            Op::Rem => continue,
            _ => continue,
        };
        let expect_ok = cap - pos >= k;
        let real_ok = res.is_ok();
        sig_step(&mut sig, kind, real_ok, k as u64);
        if real_ok != expect_ok {
            let class = if real_ok { "yielded-bytes-outside-buffer" } else { "rejected-read-that-fits" };
            return Err(viol(class, i, format!("{op:?}: ok={real_ok}, {} bytes were left", cap - pos)));
        }
        match res {
            Ok(bytes) => {
                if bytes != content[pos..pos + k] {
                    return Err(viol("wrong-bytes", i, format!("{op:?} at pos {pos}: got {:02x?}, buffer holds {:02x?}", bytes, &content[pos..pos + k])));
                }
                if consume {
                    pos += k;
                }
                let rem = src.remaining();
                if rem != cap - pos {
                    let class = if consume { "position-differs" } else { "peek-consumed" };
                    return Err(viol(class, i, format!("after {op:?}: remaining() = {rem}, model says {}", cap - pos)));
                }
            }
            Err(e) => {
                stats.failed_ops += 1;
                if let Err(m) = render_error(&e) {
                    return Err(viol("error-not-renderable", i, m));
                }
                let rem = src.remaining();
                if !consume && rem != rem_before {
                    return Err(viol("peek-consumed", i, format!("failed {op:?} changed remaining() from {rem_before} to {rem}")));
                }
                if rem > rem_before {
                    return Err(viol("remaining-grew", i, format!("{op:?}: {rem_before} -> {rem}")));
                }
                // The statement does not say what a failed read consumes; follow the source from here on.
                pos = cap - rem;
            }
        }
    }
    drop(src);
    if arena.mem != before {
        return Err(viol("input-buffer-modified", h.ops.len(), String::new()));
    }
    stats.signature = sig.0;
    Ok(stats)
}

// ------------------------------------------------------------------------------------------------------------------
// Generation
// ------------------------------------------------------------------------------------------------------------------

use refcodec::util::Rng;

/// The alphabet of the bounded-exhaustive sweep (k in 0..=3, two most recent reservations).
pub fn small_alphabet(target: Target) -> Vec<Op> {
    let mut a = Vec::new();
    match target {
        Target::SliceOut | Target::VecOut => {
            a.push(Op::Wb);
            for k in 0..=3 {
                a.push(Op::W { k });
            }
            for k in 0..=3 {
                a.push(Op::R { k, huge: 0 });
            }
            for r in 0..2 {
                for k in 0..=3 {
                    a.push(Op::Wr { r, k });
                }
            }
        }
        Target::SliceIn => {
            a.push(Op::Pb);
            a.push(Op::Rb);
            for n in 0..=3 {
                a.push(Op::Pn { n });
                a.push(Op::Rn { n });
            }
            for k in 0..=3 {
                a.push(Op::Ps { k, huge: 0 });
                a.push(Op::Rs { k, huge: 0 });
                a.push(Op::Ri { k });
            }
        }
    }
    a
}

/// Number of histories of exactly `len` ops over the small alphabet.
pub fn small_count(target: Target, len: usize) -> u64 {
    (small_alphabet(target).len() as u64).pow(len as u32)
}

pub fn small_history(target: Target, cap: usize, len: usize, mut index: u64) -> History {
    let a = small_alphabet(target);
    let mut ops = Vec::with_capacity(len);
    for _ in 0..len {
        ops.push(a[(index % a.len() as u64) as usize].clone());
        index /= a.len() as u64;
    }
    // `r` selects the first / second reservation made so far.
    History { target, cap, prefix: 0, spare: if target == Target::VecOut { cap } else { 0 }, data_seed: 7, ops, fail_alloc_at: None }
}

pub fn random_history(rng: &mut Rng) -> History {
    let target = *rng.pick(&[Target::SliceOut, Target::SliceOut, Target::VecOut, Target::VecOut, Target::SliceIn]);
    // swarm: per-history size regime and op mix
    let max_k = *rng.pick(&[1usize, 3, 8, 17, 64, 300, 4096, 4096, 70_000]);
    let max_k = if cfg!(miri) { max_k.min(4096) } else { max_k };
    let len_top = *rng.pick(&[4usize, 12, 40, 200]);
    let len = 1 + rng.usize_below(len_top);
    let cap = match rng.below(5) {
        0 => rng.usize_below(5),
        1 => rng.usize_below(64),
        2 => rng.usize_below(max_k * 4 + 1),
        _ => rng.usize_below(max_k * len / 2 + 2),
    };
    let w_weight = 1 + rng.below(6);
    let r_weight = rng.below(5);
    let wr_weight = rng.below(6);
    let huge_on = rng.chance(1, 6);
    let mut ops = Vec::with_capacity(len);
    let mut n_resv = 0usize;
    for _ in 0..len {
        let k = if rng.chance(1, 8) { rng.usize_below(3) } else { rng.usize_below(max_k + 1) };
        let op = match target {
            Target::SliceOut | Target::VecOut => {
                let total = 2 + w_weight + r_weight + wr_weight + 1;
                let x = rng.below(total);
                if x < 2 {
                    Op::Wb
                } else if x < 2 + w_weight {
                    Op::W { k }
                } else if x < 2 + w_weight + r_weight {
                    n_resv += 1;
                    let huge = if huge_on && rng.chance(1, 10) { 1 + rng.below(4) as u8 } else { 0 };
                    Op::R { k, huge }
                } else if x < 2 + w_weight + r_weight + wr_weight {
                    // bias towards small writes so that reservations are filled in several pieces
                    let k = if rng.chance(2, 3) { rng.usize_below(k / 2 + 2) } else { k };
                    Op::Wr { r: rng.usize_below(n_resv.max(1)), k }
                } else {
                    Op::Rem
                }
            }
            Target::SliceIn => match rng.below(8) {
                0 => Op::Pb,
                1 => Op::Rb,
                2 => Op::Pn { n: *rng.pick(&[0usize, 1, 2, 3, 4, 5, 8, 16]) },
                3 => Op::Rn { n: *rng.pick(&[0usize, 1, 2, 3, 4, 5, 8, 16]) },
                4 => Op::Ps { k, huge: if huge_on && rng.chance(1, 6) { 1 + rng.below(4) as u8 } else { 0 } },
                5 => Op::Rs { k, huge: if huge_on && rng.chance(1, 6) { 1 + rng.below(4) as u8 } else { 0 } },
                6 => Op::Ri { k },
                _ => Op::Rem,
            },
        };
        ops.push(op);
    }
    let (prefix, spare) = if target == Target::VecOut {
        (
            if rng.chance(1, 2) { 0 } else { rng.usize_below(40) },
            match rng.below(3) {
                0 => 0,
                1 => rng.usize_below(16),
                _ => rng.usize_below(max_k * 4 + 1),
            },
        )
    } else {
        (0, 0)
    };
    let fail_alloc_at = if target == Target::VecOut && rng.chance(1, 3) { Some(rng.usize_below(len)) } else { None };
    History { target, cap, prefix, spare, data_seed: rng.next_u64(), ops, fail_alloc_at }
}

/// Candidates for delta debugging: shorter / simpler histories.
pub fn shrink_candidates(h: &History) -> Vec<History> {
    let mut out = Vec::new();
    let n = h.ops.len();
    // drop chunks, then single ops
    let mut chunk = n / 2;
    while chunk >= 1 {
        let mut start = 0;
        while start + chunk <= n {
            let mut c = h.clone();
            c.ops.drain(start..start + chunk);
            if let Some(f) = c.fail_alloc_at {
                if f >= start + chunk {
                    c.fail_alloc_at = Some(f - chunk);
                } else if f >= start {
                    c.fail_alloc_at = None;
                }
            }
            out.push(c);
            start += chunk;
        }
        chunk /= 2;
    }
    for (i, op) in h.ops.iter().enumerate() {
        let smaller: Vec<Op> = match op {
            Op::W { k } if *k > 0 => vec![Op::W { k: k / 2 }, Op::W { k: k - 1 }, Op::Wb],
            Op::R { k, huge } if *k > 0 || *huge > 0 => vec![Op::R { k: k / 2, huge: 0 }, Op::R { k: k.saturating_sub(1), huge: 0 }],
            Op::Wr { r, k } if *k > 0 || *r > 0 => vec![Op::Wr { r: *r, k: k / 2 }, Op::Wr { r: *r, k: k.saturating_sub(1) }, Op::Wr { r: 0, k: *k }],
            Op::Ps { k, huge } if *k > 0 || *huge > 0 => vec![Op::Ps { k: k / 2, huge: 0 }, Op::Ps { k: k.saturating_sub(1), huge: 0 }],
            Op::Rs { k, huge } if *k > 0 || *huge > 0 => vec![Op::Rs { k: k / 2, huge: 0 }, Op::Rs { k: k.saturating_sub(1), huge: 0 }],
            Op::Ri { k } if *k > 0 => vec![Op::Ri { k: k / 2 }, Op::Ri { k: k - 1 }],
            Op::Pn { n } if *n > 0 => vec![Op::Pn { n: n / 2 }],
            Op::Rn { n } if *n > 0 => vec![Op::Rn { n: n / 2 }],
            _ => vec![],
        };
        for s in smaller {
            let mut c = h.clone();
            c.ops[i] = s;
            out.push(c);
        }
    }
    if h.cap > 0 {
        for cap in [h.cap / 2, h.cap - 1] {
            let mut c = h.clone();
            c.cap = cap;
            out.push(c);
        }
    }
    if h.prefix > 0 {
        let mut c = h.clone();
        c.prefix = 0;
        out.push(c);
    }
    if h.spare > 0 {
        for s in [0, h.spare / 2] {
            let mut c = h.clone();
            c.spare = s;
            out.push(c);
        }
    }
    if h.fail_alloc_at.is_some() {
        let mut c = h.clone();
        c.fail_alloc_at = None;
        out.push(c);
    }
    out
}
