//! The allocator seam: every allocation of the process goes through here.
//!
//! * counts the bytes requested (so that "memory governed by the input length" is measured, not guessed),
//! * refuses any single request above `REFUSE_ABOVE` (counted, answered with null) so that an announced-size
//!   allocation is observed without really touching gigabytes,
//! * can be armed to fail the n-th request at or above a size threshold (allocation fault injection),
//! * surrounds blocks with red zones that are verified on free / realloc / on demand, so that a write just outside
//!   a `Vec`'s capacity is detected natively (Miri does that job in the Miri leg, where red zones are off).
//!
//! codecsim workers are single-threaded processes, so plain atomics with relaxed ordering are enough.

use std::alloc::{GlobalAlloc, Layout, System};
use std::sync::atomic::{AtomicBool, AtomicUsize, Ordering::Relaxed};

pub const REFUSE_ABOVE: usize = 64 << 20;

pub static BYTES_REQUESTED: AtomicUsize = AtomicUsize::new(0);
pub static REQUESTS: AtomicUsize = AtomicUsize::new(0);
pub static MAX_SINGLE: AtomicUsize = AtomicUsize::new(0);
pub static REFUSED: AtomicUsize = AtomicUsize::new(0);
/// 0 = not armed; n = fail the n-th qualifying request from now.
pub static ARM_NTH: AtomicUsize = AtomicUsize::new(0);
pub static ARM_MIN_SIZE: AtomicUsize = AtomicUsize::new(0);
pub static FAULTS_DELIVERED: AtomicUsize = AtomicUsize::new(0);
pub static REDZONE_CORRUPTIONS: AtomicUsize = AtomicUsize::new(0);
static TRACKING: AtomicBool = AtomicBool::new(false);

#[cfg(not(miri))]
const FRONT: usize = 32; // 8 bytes size + 24 bytes zone; keeps 16-byte alignment of the user block
#[cfg(not(miri))]
const BACK: usize = 32;
#[cfg(not(miri))]
const ZONE_BYTE: u8 = 0xA7;

pub struct Seam;

impl Seam {
    fn admit(size: usize, align: usize) -> bool {
        if !TRACKING.load(Relaxed) {
            // Outside measured sections (the call-counting pre-run, the harness itself) huge requests are refused
            // as well, silently.
            return size <= REFUSE_ABOVE;
        }
        BYTES_REQUESTED.fetch_add(size, Relaxed);
        REQUESTS.fetch_add(1, Relaxed);
        MAX_SINGLE.fetch_max(size, Relaxed);
        if size > REFUSE_ABOVE {
            REFUSED.fetch_add(1, Relaxed);
            // One allocation failure per measured section: a refusal uses up an armed fault, so that the small
            // allocation which builds the error value cannot fail as well (that would abort, as any Rust program
            // does when an infallible allocation fails, and says nothing about the code under test).
            ARM_NTH.store(0, Relaxed);
            return false;
        }
        let nth = ARM_NTH.load(Relaxed);
        // ARM_MIN_SIZE == 0 selects "byte buffers only" (alignment 1): the growth of a Vec<u8>, never the small
        // aligned allocation that boxes an error value.
        let min = ARM_MIN_SIZE.load(Relaxed);
        if nth > 0 && ((min == 0 && align == 1) || (min > 0 && size >= min)) {
            ARM_NTH.store(nth - 1, Relaxed);
            if nth == 1 {
                FAULTS_DELIVERED.fetch_add(1, Relaxed);
                return false;
            }
        }
        true
    }
}

#[cfg(not(miri))]
unsafe fn guarded_alloc(layout: Layout, zeroed: bool) -> *mut u8 {
    if layout.align() > 16 {
        return if zeroed { System.alloc_zeroed(layout) } else { System.alloc(layout) };
    }
    let total = match layout.size().checked_add(FRONT + BACK) {
        Some(t) => t,
        None => return std::ptr::null_mut(),
    };
    let Ok(outer) = Layout::from_size_align(total, 16) else {
        return std::ptr::null_mut();
    };
    let base = if zeroed { System.alloc_zeroed(outer) } else { System.alloc(outer) };
    if base.is_null() {
        return base;
    }
    (base as *mut usize).write(layout.size());
    std::ptr::write_bytes(base.add(8), ZONE_BYTE, FRONT - 8);
    std::ptr::write_bytes(base.add(FRONT + layout.size()), ZONE_BYTE, BACK);
    base.add(FRONT)
}

/// Verifies the red zones of a block obtained from this allocator. Returns false (and counts) on corruption.
#[cfg(not(miri))]
pub unsafe fn check_block(user: *const u8) -> bool {
    let base = user.sub(FRONT);
    let size = (base as *const usize).read();
    let mut ok = true;
    for i in 8..FRONT {
        ok &= *base.add(i) == ZONE_BYTE;
    }
    for i in 0..BACK {
        ok &= *user.add(size + i) == ZONE_BYTE;
    }
    if !ok {
        REDZONE_CORRUPTIONS.fetch_add(1, Relaxed);
    }
    ok
}
#[cfg(miri)]
pub unsafe fn check_block(_user: *const u8) -> bool {
    true
}

unsafe impl GlobalAlloc for Seam {
    unsafe fn alloc(&self, layout: Layout) -> *mut u8 {
        if !Seam::admit(layout.size(), layout.align()) {
            return std::ptr::null_mut();
        }
        #[cfg(not(miri))]
        {
            guarded_alloc(layout, false)
        }
        #[cfg(miri)]
        {
            System.alloc(layout)
        }
    }

    unsafe fn alloc_zeroed(&self, layout: Layout) -> *mut u8 {
        if !Seam::admit(layout.size(), layout.align()) {
            return std::ptr::null_mut();
        }
        #[cfg(not(miri))]
        {
            guarded_alloc(layout, true)
        }
        #[cfg(miri)]
        {
            System.alloc_zeroed(layout)
        }
    }

    unsafe fn dealloc(&self, ptr: *mut u8, layout: Layout) {
        #[cfg(not(miri))]
        {
            if layout.align() > 16 {
                return System.dealloc(ptr, layout);
            }
            check_block(ptr);
            let outer = Layout::from_size_align_unchecked(layout.size() + FRONT + BACK, 16);
            System.dealloc(ptr.sub(FRONT), outer)
        }
        #[cfg(miri)]
        {
            System.dealloc(ptr, layout)
        }
    }

    unsafe fn realloc(&self, ptr: *mut u8, layout: Layout, new_size: usize) -> *mut u8 {
        if !Seam::admit(new_size, layout.align()) {
            return std::ptr::null_mut();
        }
        #[cfg(not(miri))]
        {
            if layout.align() > 16 {
                return System.realloc(ptr, layout, new_size);
            }
            check_block(ptr);
            // Simple and obviously right: new block, copy, free.
            let new_layout = Layout::from_size_align_unchecked(new_size, layout.align());
            let fresh = guarded_alloc(new_layout, false);
            if fresh.is_null() {
                return fresh;
            }
            std::ptr::copy_nonoverlapping(ptr, fresh, layout.size().min(new_size));
            let outer = Layout::from_size_align_unchecked(layout.size() + FRONT + BACK, 16);
            System.dealloc(ptr.sub(FRONT), outer);
            fresh
        }
        #[cfg(miri)]
        {
            System.realloc(ptr, layout, new_size)
        }
    }
}

#[derive(Clone, Copy, Debug, Default)]
pub struct AllocStats {
    pub bytes: usize,
    pub requests: usize,
    pub max_single: usize,
    pub refused: usize,
    pub faults: usize,
    pub corruptions: usize,
}

/// Starts measuring: resets the counters, optionally arms an allocation fault.
pub fn begin(fail_nth: usize, min_size: usize) {
    BYTES_REQUESTED.store(0, Relaxed);
    REQUESTS.store(0, Relaxed);
    MAX_SINGLE.store(0, Relaxed);
    REFUSED.store(0, Relaxed);
    FAULTS_DELIVERED.store(0, Relaxed);
    ARM_MIN_SIZE.store(min_size, Relaxed);
    ARM_NTH.store(fail_nth, Relaxed);
    TRACKING.store(true, Relaxed);
}

/// Stops measuring and disarms; returns what was seen since `begin`.
pub fn end() -> AllocStats {
    TRACKING.store(false, Relaxed);
    ARM_NTH.store(0, Relaxed);
    AllocStats {
        bytes: BYTES_REQUESTED.load(Relaxed),
        requests: REQUESTS.load(Relaxed),
        max_single: MAX_SINGLE.load(Relaxed),
        refused: REFUSED.load(Relaxed),
        faults: FAULTS_DELIVERED.load(Relaxed),
        corruptions: REDZONE_CORRUPTIONS.swap(0, Relaxed),
    }
}
