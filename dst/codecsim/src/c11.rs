//! C11 — decoding untrusted bytes.
//!
//! value -> reference encoder -> fault-injecting channel -> REAL `Decoder` over the REAL `SliceInputSource`
//! (wrapped only to count calls), with the allocator behind the counting / failing seam and the strict reference
//! decoder of `refcodec` as oracle.

use crate::alloc_seam;
use crate::definition_types as dt;
use refcodec::dynval::{self, RefErr, Ty, Val};
use refcodec::util::Rng;
use serde::{Deserialize, Serialize};
use slice_codec::buffer::slice::SliceInputSource;
use slice_codec::buffer::InputSource;
use slice_codec::decode_from::DecodeFrom;
use slice_codec::decoder::Decoder;
use std::collections::{BTreeMap, HashMap};
use std::panic::{catch_unwind, AssertUnwindSafe};

// ------------------------------------------------------------------------------------------------------------------
// The instrumented input source: delegates every call to the real SliceInputSource and counts.
// ------------------------------------------------------------------------------------------------------------------

pub struct Counting<'a> {
    inner: SliceInputSource<'a>,
    pub calls: u64,
}

impl InputSource for Counting<'_> {
    fn remaining(&self) -> usize {
        self.inner.remaining()
    }
    fn peek_byte(&mut self) -> slice_codec::Result<u8> {
        self.calls += 1;
        self.inner.peek_byte()
    }
    fn read_byte(&mut self) -> slice_codec::Result<u8> {
        self.calls += 1;
        self.inner.read_byte()
    }
    fn peek_bytes_exact<const N: usize>(&mut self) -> slice_codec::Result<&[u8; N]> {
        self.calls += 1;
        self.inner.peek_bytes_exact()
    }
    fn read_bytes_exact<const N: usize>(&mut self) -> slice_codec::Result<&[u8; N]> {
        self.calls += 1;
        self.inner.read_bytes_exact()
    }
    fn peek_byte_slice_exact(&mut self, count: usize) -> slice_codec::Result<&[u8]> {
        self.calls += 1;
        self.inner.peek_byte_slice_exact(count)
    }
    fn read_byte_slice_exact(&mut self, count: usize) -> slice_codec::Result<&[u8]> {
        self.calls += 1;
        self.inner.read_byte_slice_exact(count)
    }
    fn read_bytes_into_exact(&mut self, dest: &mut [u8]) -> slice_codec::Result<()> {
        self.calls += 1;
        self.inner.read_bytes_into_exact(dest)
    }
}

// ------------------------------------------------------------------------------------------------------------------
// Decodable types under test
// ------------------------------------------------------------------------------------------------------------------

pub trait Subject: DecodeFrom {
    fn ty() -> Ty;
    fn to_val(&self) -> Val;
}

macro_rules! int_subject {
    ($t:ty, $ty:expr) => {
        impl Subject for $t {
            fn ty() -> Ty {
                $ty
            }
            fn to_val(&self) -> Val {
                Val::Int(*self as i128)
            }
        }
    };
}
int_subject!(u8, Ty::U8);
int_subject!(i8, Ty::I8);
int_subject!(u16, Ty::U16);
int_subject!(i16, Ty::I16);
int_subject!(u32, Ty::U32);
int_subject!(i32, Ty::I32);
int_subject!(u64, Ty::U64);
int_subject!(i64, Ty::I64);

impl Subject for bool {
    fn ty() -> Ty {
        Ty::Bool
    }
    fn to_val(&self) -> Val {
        Val::Bool(*self)
    }
}
impl Subject for f32 {
    fn ty() -> Ty {
        Ty::F32
    }
    fn to_val(&self) -> Val {
        Val::F32(self.to_bits())
    }
}
impl Subject for f64 {
    fn ty() -> Ty {
        Ty::F64
    }
    fn to_val(&self) -> Val {
        Val::F64(self.to_bits())
    }
}
impl Subject for String {
    fn ty() -> Ty {
        Ty::Str
    }
    fn to_val(&self) -> Val {
        Val::Str(self.clone())
    }
}
impl<T: Subject> Subject for Vec<T> {
    fn ty() -> Ty {
        Ty::Seq(Box::new(T::ty()))
    }
    fn to_val(&self) -> Val {
        Val::Seq(self.iter().map(|x| x.to_val()).collect())
    }
}
impl<K: Subject + Eq + std::hash::Hash, V: Subject> Subject for HashMap<K, V> {
    fn ty() -> Ty {
        Ty::Dict(Box::new(K::ty()), Box::new(V::ty()))
    }
    fn to_val(&self) -> Val {
        Val::Dict(self.iter().map(|(k, v)| (k.to_val(), v.to_val())).collect())
    }
}
impl<K: Subject + Ord, V: Subject> Subject for BTreeMap<K, V> {
    fn ty() -> Ty {
        Ty::Dict(Box::new(K::ty()), Box::new(V::ty()))
    }
    fn to_val(&self) -> Val {
        Val::Dict(self.iter().map(|(k, v)| (k.to_val(), v.to_val())).collect())
    }
}

/// Variable-width integers are decoded through inherent methods of the decoder; these wrappers turn each
/// instantiation into a `DecodeFrom` type so that it can also sit inside sequences and dictionaries.
macro_rules! var_subject {
    ($name:ident, $inner:ty, $method:ident, $ty:expr) => {
        #[derive(Debug, Clone, PartialEq, Eq, Hash, PartialOrd, Ord)]
        pub struct $name(pub $inner);
        impl DecodeFrom for $name {
            fn decode_from(decoder: &mut Decoder<impl InputSource>) -> slice_codec::Result<Self> {
                decoder.$method::<$inner>().map($name)
            }
        }
        impl Subject for $name {
            fn ty() -> Ty {
                $ty
            }
            fn to_val(&self) -> Val {
                Val::Int(self.0 as i128)
            }
        }
    };
}
var_subject!(VarI32, i32, decode_varint, Ty::VarI32);
var_subject!(VarI64, i64, decode_varint, Ty::VarI62);
var_subject!(VarU32, u32, decode_varuint, Ty::VarU32);
var_subject!(VarU64, u64, decode_varuint, Ty::VarU62);

#[derive(Debug, Clone, PartialEq, Eq)]
pub struct SizeVal(pub usize);
impl DecodeFrom for SizeVal {
    fn decode_from(decoder: &mut Decoder<impl InputSource>) -> slice_codec::Result<Self> {
        decoder.decode_size().map(SizeVal)
    }
}
impl Subject for SizeVal {
    fn ty() -> Ty {
        Ty::Size
    }
    fn to_val(&self) -> Val {
        Val::Int(self.0 as i128)
    }
}

#[derive(Debug)]
pub struct Skip;
impl DecodeFrom for Skip {
    fn decode_from(decoder: &mut Decoder<impl InputSource>) -> slice_codec::Result<Self> {
        decoder.skip_tagged_fields().map(|_| Skip)
    }
}
impl Subject for Skip {
    fn ty() -> Ty {
        Ty::SkipTagged
    }
    fn to_val(&self) -> Val {
        Val::Unit
    }
}

// The generator-reply types of the real compiler (slicec/src/definition_types.rs, compiled into this binary).
impl Subject for dt::GeneratedFile {
    fn ty() -> Ty {
        refcodec::schema::compiler_schema("GeneratedFile").unwrap()
    }
    fn to_val(&self) -> Val {
        Val::Struct(vec![Some(Val::Str(self.path.clone())), Some(Val::Str(String::from_utf8_lossy(AsRef::<[u8]>::as_ref(&self.contents)).into_owned()))])
    }
}
impl Subject for dt::DiagnosticLevel {
    fn ty() -> Ty {
        Ty::U8Enum(3)
    }
    fn to_val(&self) -> Val {
        Val::Int(*self as u8 as i128)
    }
}
impl Subject for dt::Diagnostic {
    fn ty() -> Ty {
        refcodec::schema::compiler_schema("Diagnostic").unwrap()
    }
    fn to_val(&self) -> Val {
        Val::Struct(vec![
            Some(self.level.to_val()),
            Some(Val::Str(self.message.clone())),
            self.source.as_ref().map(|s| Val::Str(s.clone())),
        ])
    }
}

/// The complete generator reply, decoded the way `handle_generator_response` does: two sequences in a row.
pub struct Reply(Vec<dt::GeneratedFile>, Vec<dt::Diagnostic>);
impl DecodeFrom for Reply {
    fn decode_from(decoder: &mut Decoder<impl InputSource>) -> slice_codec::Result<Self> {
        let files = decoder.decode()?;
        let diags = decoder.decode()?;
        Ok(Reply(files, diags))
    }
}
impl Subject for Reply {
    fn ty() -> Ty {
        Ty::Struct(
            "Reply*",
            vec![], // never used through the generic path, see `reference()`
        )
    }
    fn to_val(&self) -> Val {
        Val::Seq(vec![self.0.to_val(), self.1.to_val()])
    }
}

// ------------------------------------------------------------------------------------------------------------------
// Registry
// ------------------------------------------------------------------------------------------------------------------

#[derive(Debug, Clone)]
pub enum RealOutcome {
    Ok { val: Val, consumed: usize },
    Err { debug: String, rendered: Result<String, String>, io_rendered: Result<String, String> },
    Panic { message: String },
}

pub struct RealRun {
    pub outcome: RealOutcome,
    pub alloc: alloc_seam::AllocStats,
    pub calls: u64,
}

pub struct Entry {
    pub name: &'static str,
    pub ty: Ty,
    pub run: fn(&[u8], usize) -> RealRun,
    pub is_reply: bool,
}

thread_local! {
    static LAST_PANIC: std::cell::RefCell<String> = const { std::cell::RefCell::new(String::new()) };
}

pub fn install_quiet_panic_hook() {
    if std::env::var_os("CODECSIM_LOUD").is_some() {
        return;
    }
    std::panic::set_hook(Box::new(|info| {
        let loc = info.location().map(|l| format!("{}:{}", l.file(), l.line())).unwrap_or_default();
        let msg = if let Some(s) = info.payload().downcast_ref::<&str>() {
            s.to_string()
        } else if let Some(s) = info.payload().downcast_ref::<String>() {
            s.clone()
        } else {
            "<non-string panic>".to_string()
        };
        LAST_PANIC.with(|p| *p.borrow_mut() = format!("{msg} @ {loc}"));
    }));
}

fn take_panic() -> String {
    LAST_PANIC.with(|p| std::mem::take(&mut *p.borrow_mut()))
}

const PAD: usize = 32;

fn run_decode<T: Subject>(bytes: &[u8], fail_nth: usize) -> RealRun {
    // The input sits between canaries that differ from run to run of the PRNG-free kind: a read outside the buffer
    // yields bytes the reference never saw, which shows up as an accept / value mismatch (and as UB under Miri).
    let mut arena = Vec::with_capacity(bytes.len() + 2 * PAD);
    arena.extend(std::iter::repeat(0xD7u8).take(PAD));
    arena.extend_from_slice(bytes);
    arena.extend(std::iter::repeat(0x3Bu8).take(PAD));
    let window = &arena[PAD..PAD + bytes.len()];

    // Work measurement first, on a wrapper that counts calls and delegates each one to the real source. (A wrapper
    // cannot see overrides of provided trait methods, so the verdict below never comes from this run.)
    let calls = {
        let source = Counting { inner: SliceInputSource::from(window), calls: 0 };
        let mut counting_decoder = Decoder::new(source);
        let _ = catch_unwind(AssertUnwindSafe(|| counting_decoder.decode::<T>().map(|_| ())));
        let _ = take_panic();
        counting_decoder.calls
    };
    // The run that is judged: the real Decoder directly over the real SliceInputSource, exactly as main.rs builds it.
    let mut decoder: Decoder<SliceInputSource> = Decoder::from(window);
    alloc_seam::begin(fail_nth, 4096);
    let r = catch_unwind(AssertUnwindSafe(|| decoder.decode::<T>()));
    let alloc = alloc_seam::end();
    let outcome = match r {
        Ok(Ok(v)) => {
            let remaining = decoder.remaining();
            // `remaining` above the length is an over-read symptom by itself; saturate and let the oracle flag it.
            let consumed = bytes.len().wrapping_sub(remaining);
            RealOutcome::Ok { val: v.to_val(), consumed }
        }
        Ok(Err(e)) => {
            let debug = format!("{:?}", e.kind());
            let rendered = catch_unwind(AssertUnwindSafe(|| e.to_string())).map_err(|_| take_panic());
            let io_rendered = catch_unwind(AssertUnwindSafe(|| {
                let io: std::io::Error = e.into();
                io.to_string()
            }))
            .map_err(|_| take_panic());
            RealOutcome::Err { debug, rendered, io_rendered }
        }
        Err(_) => RealOutcome::Panic { message: take_panic() },
    };
    RealRun { outcome, alloc, calls }
}

macro_rules! entry {
    ($name:expr, $t:ty) => {
        Entry { name: $name, ty: <$t as Subject>::ty(), run: run_decode::<$t>, is_reply: false }
    };
}

pub fn registry() -> Vec<Entry> {
    let mut v = vec![
        entry!("bool", bool),
        entry!("u8", u8),
        entry!("i8", i8),
        entry!("u16", u16),
        entry!("i16", i16),
        entry!("u32", u32),
        entry!("i32", i32),
        entry!("u64", u64),
        entry!("i64", i64),
        entry!("f32", f32),
        entry!("f64", f64),
        entry!("varint32", VarI32),
        entry!("varint62", VarI64),
        entry!("varuint32", VarU32),
        entry!("varuint62", VarU64),
        entry!("size", SizeVal),
        entry!("string", String),
        entry!("Sequence<uint8>", Vec<u8>),
        entry!("Sequence<bool>", Vec<bool>),
        entry!("Sequence<string>", Vec<String>),
        entry!("Sequence<varint32>", Vec<VarI32>),
        entry!("Sequence<Sequence<uint16>>", Vec<Vec<u16>>),
        entry!("Sequence<uint64>", Vec<u64>),
        entry!("Sequence<float64>", Vec<f64>),
        entry!("HashMap<uint32,uint64>", HashMap<u32, u64>),
        entry!("BTreeMap<int64,float32>", BTreeMap<i64, f32>),
        entry!("HashMap<uint8,uint8>", HashMap<u8, u8>),
        entry!("HashMap<string,int32>", HashMap<String, i32>),
        entry!("HashMap<varuint32,Sequence<string>>", HashMap<VarU32, Vec<String>>),
        entry!("BTreeMap<uint8,bool>", BTreeMap<u8, bool>),
        entry!("BTreeMap<string,string>", BTreeMap<String, String>),
        entry!("BTreeMap<int16,HashMap<uint8,string>>", BTreeMap<i16, HashMap<u8, String>>),
        entry!("Sequence<BTreeMap<int16,Sequence<uint8>>>", Vec<BTreeMap<i16, Vec<u8>>>),
        entry!("skip_tagged_fields", Skip),
        entry!("GeneratedFile", dt::GeneratedFile),
        entry!("DiagnosticLevel", dt::DiagnosticLevel),
        entry!("Diagnostic", dt::Diagnostic),
        entry!("Sequence<GeneratedFile>", Vec<dt::GeneratedFile>),
        entry!("Sequence<Diagnostic>", Vec<dt::Diagnostic>),
    ];
    v.push(Entry { name: "generator reply", ty: Ty::Bool, run: run_decode::<Reply>, is_reply: true });
    v
}

/// Strict reference verdict for `bytes` as type `entry`.
pub fn reference(entry: &Entry, bytes: &[u8]) -> Result<(Val, usize), RefErr> {
    if entry.is_reply {
        let mut r = dynval::Reader::with_schema(bytes, refcodec::schema::compiler_schema);
        let (ft, dty) = refcodec::schema::reply_ty();
        let a = r.decode(&ft)?;
        let b = r.decode(&dty)?;
        Ok((Val::Seq(vec![a, b]), r.pos))
    } else {
        let mut r = dynval::Reader::with_schema(bytes, refcodec::schema::compiler_schema);
        let v = r.decode(&entry.ty)?;
        Ok((v, r.pos))
    }
}

// ------------------------------------------------------------------------------------------------------------------
// Cases, oracle
// ------------------------------------------------------------------------------------------------------------------

#[derive(Clone, Debug, Serialize, Deserialize, PartialEq, Eq)]
pub struct Case {
    /// name in the registry
    pub ty: String,
    /// hex
    pub bytes: String,
    /// 0 = no allocation fault; n = the n-th allocation request of at least 4 KiB fails
    #[serde(default)]
    pub alloc_fail_nth: usize,
    /// what the channel did (documentation only, not needed for replay)
    #[serde(default)]
    pub faults: Vec<String>,
}

#[derive(Debug)]
pub struct Violation {
    pub class: String,
    pub detail: String,
}

#[derive(Debug, Default, Clone)]
pub struct CaseStats {
    pub real_ok: bool,
    pub ref_class: &'static str,
    pub alloc_fault_delivered: bool,
    pub alloc_bytes: usize,
    pub calls: u64,
    pub signature: u64,
}

pub const ALLOC_BASE: usize = 1 << 20;
pub const ALLOC_PER_BYTE: usize = 256;
pub const CALLS_BASE: u64 = 16;
pub const CALLS_PER_BYTE: u64 = 8;

pub fn check(entry: &Entry, bytes: &[u8], alloc_fail_nth: usize) -> Result<CaseStats, Violation> {
    let real = (entry.run)(bytes, alloc_fail_nth);
    let reference = reference(entry, bytes);
    let mut stats = CaseStats {
        alloc_bytes: real.alloc.bytes,
        calls: real.calls,
        alloc_fault_delivered: real.alloc.faults > 0,
        ref_class: match &reference {
            Ok(_) => "ok",
            Err(e) => e.class(),
        },
        ..Default::default()
    };
    let v = |class: &str, detail: String| Violation { class: class.to_owned(), detail };

    match &real.outcome {
        RealOutcome::Panic { message } => {
            // strip the directory part so that the class is stable across checkouts
            let site = message.rsplit(" @ ").next().unwrap_or("").rsplit('/').next().unwrap_or("").to_owned();
            return Err(v(&format!("panic@{site}"), format!("decoding panicked: {message}")));
        }
        RealOutcome::Ok { val, consumed } => {
            stats.real_ok = true;
            match &reference {
                Err(e) => {
                    return Err(v(
                        &format!("accepted-invalid/{}", e.class()),
                        format!("decoder returned {val:?} (consumed {consumed}) but the input is invalid: {e}"),
                    ));
                }
                Ok((rv, rc)) => {
                    if *consumed > bytes.len() {
                        return Err(v("consumed-more-than-input", format!("consumed {consumed} of {}", bytes.len())));
                    }
                    if val.canonical() != rv.canonical() {
                        return Err(v("wrong-value", format!("decoder returned {val:?}, reference says {rv:?}")));
                    }
                    if consumed != rc {
                        return Err(v("wrong-consumed-count", format!("decoder consumed {consumed}, reference {rc}")));
                    }
                }
            }
        }
        RealOutcome::Err { debug, rendered, io_rendered } => {
            match rendered {
                Err(p) => {
                    let site = p.rsplit(" @ ").next().unwrap_or("").rsplit('/').next().unwrap_or("").to_owned();
                    return Err(v(&format!("error-not-renderable@{site}"), format!("to_string() of {debug} panicked: {p}")));
                }
                Ok(s) if s.trim().is_empty() => {
                    return Err(v("error-renders-empty", format!("{debug} renders as an empty message")));
                }
                Ok(_) => {}
            }
            match io_rendered {
                Err(p) => {
                    let site = p.rsplit(" @ ").next().unwrap_or("").rsplit('/').next().unwrap_or("").to_owned();
                    return Err(v(&format!("io-error-not-renderable@{site}"), format!("io::Error from {debug} panicked: {p}")));
                }
                Ok(s) if s.trim().is_empty() => {
                    return Err(v("error-renders-empty", format!("io::Error from {debug} renders as an empty message")));
                }
                Ok(_) => {}
            }
            if reference.is_ok() && real.alloc.faults == 0 && real.alloc.refused == 0 {
                return Err(v("rejected-valid", format!("decoder failed with {debug} on an input the reference accepts")));
            }
        }
    }
    // cost: governed by the input length, not by announced sizes
    let budget = ALLOC_BASE + ALLOC_PER_BYTE * bytes.len();
    if real.alloc.bytes > budget || real.alloc.refused > 0 {
        return Err(v(
            "allocation-governed-by-announced-size",
            format!(
                "{} bytes requested from the allocator (largest single request {}) for an input of {} bytes; budget {}",
                real.alloc.bytes,
                real.alloc.max_single,
                bytes.len(),
                budget
            ),
        ));
    }
    let call_budget = CALLS_BASE + CALLS_PER_BYTE * bytes.len() as u64;
    if real.calls > call_budget {
        return Err(v("work-not-bounded-by-input", format!("{} input-source calls for {} bytes", real.calls, bytes.len())));
    }
    let mut sig = refcodec::util::Fnv::default();
    sig.update(entry.name.as_bytes());
    sig.update(stats.ref_class.as_bytes());
    sig.update(&[stats.real_ok as u8, stats.alloc_fault_delivered as u8]);
    sig.update(bytes);
    stats.signature = sig.0;
    Ok(stats)
}

// ------------------------------------------------------------------------------------------------------------------
// Generation: values, encodings with marks, channel faults
// ------------------------------------------------------------------------------------------------------------------

/// Lengths just around the places where something changes: the width of the size prefix (64, 16384), buffer and
/// message limits an implementation may have (256, 1 KiB, 2 KiB, 4 KiB, 64 KiB).
fn threshold_len(rng: &mut Rng) -> usize {
    let t = *rng.pick(&[63usize, 64, 127, 128, 255, 256, 512, 1000, 1024, 2045, 2048, 4096, 8192, 16383, 16384, 65535, 65536]);
    let len = (t + rng.usize_below(9)).saturating_sub(4);
    // under the interpreter a 64 KiB string costs minutes: the size-prefix boundary at 64 stays, the rest is capped
    if cfg!(miri) {
        len.min(600)
    } else {
        len
    }
}

fn random_string(rng: &mut Rng, max: usize) -> String {
    // one string in fifty is long: its byte length lands near a threshold, and multi-byte characters straddle it
    if rng.chance(1, 50) {
        let target = threshold_len(rng);
        let wide = rng.below(4); // 0: ASCII only .. 3: mostly multi-byte
        let mut s = String::with_capacity(target + 4);
        while s.len() < target {
            let c = match (rng.below(4) < wide, rng.below(3)) {
                (false, _) => (b'a' + rng.below(26) as u8) as char,
                (true, 0) => char::from_u32(0x80 + rng.below(0x700) as u32).unwrap_or('é'),
                (true, 1) => char::from_u32(0x4E00 + rng.below(0x100) as u32).unwrap_or('中'),
                (true, _) => '\u{1F600}',
            };
            s.push(c);
        }
        return s;
    }
    let n = rng.usize_below(max + 1);
    let mut s = String::new();
    for _ in 0..n {
        let c = match rng.below(10) {
            0 => char::from_u32(0x80 + rng.below(0x700) as u32).unwrap_or('é'),
            1 => char::from_u32(0x4E00 + rng.below(0x100) as u32).unwrap_or('中'),
            2 => '\u{1F600}',
            3 => '\0',
            _ => (b'a' + rng.below(26) as u8) as char,
        };
        s.push(c);
    }
    s
}

fn interesting_int(rng: &mut Rng, lo: i128, hi: i128) -> i128 {
    let span = (hi - lo) as u128;
    match rng.below(6) {
        0 => lo,
        1 => hi,
        2 => 0.clamp(lo, hi),
        3 => {
            // near a power of two
            let p = 1i128 << rng.below(63);
            (p + rng.below(5) as i128 - 2).clamp(lo, hi)
        }
        4 => (-(1i128 << rng.below(62)) + rng.below(5) as i128 - 2).clamp(lo, hi),
        _ => lo + ((rng.next_u64() as u128 | (rng.next_u64() as u128) << 64) % (span + 1)) as i128,
    }
}

pub fn random_val(rng: &mut Rng, ty: &Ty, depth: usize) -> Val {
    let max_len = match depth {
        0 => 6,
        1 => 4,
        _ => 3,
    };
    match ty {
        Ty::Bool => Val::Bool(rng.chance(1, 2)),
        Ty::U8 => Val::Int(interesting_int(rng, 0, u8::MAX as i128)),
        Ty::I8 => Val::Int(interesting_int(rng, i8::MIN as i128, i8::MAX as i128)),
        Ty::U16 => Val::Int(interesting_int(rng, 0, u16::MAX as i128)),
        Ty::I16 => Val::Int(interesting_int(rng, i16::MIN as i128, i16::MAX as i128)),
        Ty::U32 => Val::Int(interesting_int(rng, 0, u32::MAX as i128)),
        Ty::I32 => Val::Int(interesting_int(rng, i32::MIN as i128, i32::MAX as i128)),
        Ty::U64 => Val::Int(interesting_int(rng, 0, u64::MAX as i128)),
        Ty::I64 => Val::Int(interesting_int(rng, i64::MIN as i128, i64::MAX as i128)),
        Ty::F32 => Val::F32(rng.next_u64() as u32),
        Ty::F64 => Val::F64(rng.next_u64()),
        Ty::VarI32 => Val::Int(interesting_int(rng, i32::MIN as i128, i32::MAX as i128)),
        Ty::VarI62 => Val::Int(interesting_int(rng, -(1 << 61), (1 << 61) - 1)),
        Ty::VarU32 => Val::Int(interesting_int(rng, 0, u32::MAX as i128)),
        Ty::VarU62 | Ty::Size => Val::Int(interesting_int(rng, 0, (1 << 62) - 1)),
        Ty::Str => Val::Str(random_string(rng, 12)),
        Ty::Seq(inner) => {
            // now and then a long sequence of cheap elements (its size prefix is 2 or 4 bytes wide)
            let cheap = matches!(**inner, Ty::Bool | Ty::U8 | Ty::I8 | Ty::U16 | Ty::I16 | Ty::U32 | Ty::I32 | Ty::VarI32 | Ty::VarU32 | Ty::F32);
            let n = if cheap && depth <= 1 && rng.chance(1, 60) { threshold_len(rng).min(20_000) } else { rng.usize_below(max_len + 1) };
            Val::Seq((0..n).map(|_| random_val(rng, inner, depth + 1)).collect())
        }
        Ty::Dict(k, v) => {
            let n = rng.usize_below(max_len + 1);
            let mut seen = std::collections::BTreeSet::new();
            let mut entries = Vec::new();
            for _ in 0..n {
                let key = random_val(rng, k, depth + 1);
                if seen.insert(key.clone()) {
                    entries.push((key, random_val(rng, v, depth + 1)));
                }
            }
            Val::Dict(entries)
        }
        Ty::Struct(_, fields) => Val::Struct(
            fields
                .iter()
                .map(|f| if f.optional && rng.chance(1, 2) { None } else { Some(random_val(rng, &f.ty, depth + 1)) })
                .collect(),
        ),
        Ty::Enum(_, variants) => {
            let d = rng.usize_below(variants.len());
            Val::Enum(d, variants[d].1.iter().map(|f| Some(random_val(rng, &f.ty, depth + 1))).collect())
        }
        Ty::Named(n) => random_val(rng, &refcodec::schema::compiler_schema(n).unwrap(), depth),
        Ty::U8Enum(b) => Val::Int(rng.below(*b as u64) as i128),
        Ty::SkipTagged => Val::Unit,
    }
}

/// Encodes with offsets of every size prefix recorded, so that the channel can replace one by a bigger
/// announcement. `SkipTagged` values are given a few real tagged fields.
pub struct Marked {
    pub bytes: Vec<u8>,
    /// (offset, width) of size prefixes
    pub sizes: Vec<(usize, usize)>,
    /// offsets of bool bytes
    pub bools: Vec<usize>,
    /// (offset, len) of string payloads
    pub strings: Vec<(usize, usize)>,
}

fn put_size(m: &mut Marked, n: usize) {
    let mut w = dynval::Writer::new();
    w.size(n);
    m.sizes.push((m.bytes.len(), w.out.len()));
    m.bytes.extend_from_slice(&w.out);
}

fn encode_marked(m: &mut Marked, rng: &mut Rng, ty: &Ty, v: &Val) {
    match (ty, v) {
        (Ty::Bool, Val::Bool(b)) => {
            m.bools.push(m.bytes.len());
            m.bytes.push(*b as u8);
        }
        (Ty::Str, Val::Str(s)) => {
            put_size(m, s.len());
            m.strings.push((m.bytes.len(), s.len()));
            m.bytes.extend_from_slice(s.as_bytes());
        }
        (Ty::Seq(inner), Val::Seq(items)) => {
            put_size(m, items.len());
            for i in items {
                encode_marked(m, rng, inner, i);
            }
        }
        (Ty::Dict(k, vt), Val::Dict(entries)) => {
            put_size(m, entries.len());
            for (a, b) in entries {
                encode_marked(m, rng, k, a);
                encode_marked(m, rng, vt, b);
            }
        }
        (Ty::Struct(_, fields), Val::Struct(vals)) => {
            let n_opt = fields.iter().filter(|f| f.optional).count();
            if n_opt > 0 {
                // single optional in every struct we decode: the bit sequence is one strict byte
                let mut byte = 0u8;
                let mut k = 0;
                for (f, v) in fields.iter().zip(vals) {
                    if f.optional {
                        if v.is_some() {
                            byte |= 1 << k;
                        }
                        k += 1;
                    }
                }
                m.bools.push(m.bytes.len());
                m.bytes.push(byte);
            }
            for (f, v) in fields.iter().zip(vals) {
                if let Some(v) = v {
                    encode_marked(m, rng, &f.ty, v);
                }
            }
            encode_marked(m, rng, &Ty::SkipTagged, &Val::Unit);
        }
        (Ty::Named(n), v) => encode_marked(m, rng, &refcodec::schema::compiler_schema(n).unwrap(), v),
        (Ty::SkipTagged, Val::Unit) => {
            // 0..2 unknown tagged fields, then the end marker
            let n = if rng.chance(1, 3) { rng.usize_below(3) } else { 0 };
            for _ in 0..n {
                let mut w = dynval::Writer::new();
                w.var_signed(rng.below(1 << 20) as i128, None);
                m.bytes.extend_from_slice(&w.out);
                let len = rng.usize_below(6);
                put_size(m, len);
                m.bytes.extend(rng.bytes(len));
            }
            m.bytes.push(0xFC);
        }
        (t, v) => {
            // fixed and variable width numbers; occasionally a non-minimal width (legal on the wire)
            let mut w = dynval::Writer::new();
            match (t, v) {
                (Ty::VarI32 | Ty::VarI62, Val::Int(i)) if rng.chance(1, 5) => {
                    let min = {
                        let mut p = dynval::Writer::new();
                        p.var_signed(*i, None);
                        p.out.len()
                    };
                    let widths: Vec<usize> = [1usize, 2, 4, 8].into_iter().filter(|x| *x >= min).collect();
                    w.var_signed(*i, Some(*rng.pick(&widths)));
                }
                (Ty::VarU32 | Ty::VarU62 | Ty::Size, Val::Int(i)) if rng.chance(1, 5) => {
                    let min = {
                        let mut p = dynval::Writer::new();
                        p.var_unsigned(*i as u128, None);
                        p.out.len()
                    };
                    let widths: Vec<usize> = [1usize, 2, 4, 8].into_iter().filter(|x| *x >= min).collect();
                    w.var_unsigned(*i as u128, Some(*rng.pick(&widths)));
                }
                _ => w.encode(t, v),
            }
            m.bytes.extend_from_slice(&w.out);
        }
    }
}

pub fn encode_with_marks(rng: &mut Rng, entry: &Entry, v: &Val) -> Marked {
    let mut m = Marked { bytes: Vec::new(), sizes: Vec::new(), bools: Vec::new(), strings: Vec::new() };
    if entry.is_reply {
        let (ft, dty) = refcodec::schema::reply_ty();
        let parts = v.as_seq().unwrap();
        encode_marked(&mut m, rng, &ft, &parts[0]);
        encode_marked(&mut m, rng, &dty, &parts[1]);
    } else {
        encode_marked(&mut m, rng, &entry.ty, v);
    }
    m
}

pub fn random_value_for(rng: &mut Rng, entry: &Entry) -> Val {
    if entry.is_reply {
        let (ft, dty) = refcodec::schema::reply_ty();
        Val::Seq(vec![random_val(rng, &ft, 0), random_val(rng, &dty, 0)])
    } else {
        random_val(rng, &entry.ty, 0)
    }
}

pub const FAULT_KINDS: &[&str] = &[
    "none", "truncate", "bitflip", "setbyte", "insert", "delete", "dupkey", "announce", "splice", "badbool",
    "badutf8", "random", "allocfail", "append",
];

fn announced(rng: &mut Rng) -> u128 {
    match rng.below(8) {
        0 => 1 << 14,
        1 => 1 << 28,
        2 => 1 << 30,
        3 => (1 << 62) - 1,
        4 => 1 << 40,
        5 => (1 << 32) + rng.below(100) as u128,
        6 => 64 + rng.below(1 << 16) as u128,
        _ => 1 << rng.range(6, 61),
    }
}

/// Duplicates one dictionary entry somewhere inside the value (same key, possibly another value).
fn dup_key(rng: &mut Rng, ty: &Ty, v: &mut Val) -> bool {
    match (ty, v) {
        (Ty::Dict(_, vt), Val::Dict(entries)) => {
            if !entries.is_empty() && rng.chance(2, 3) {
                let i = rng.usize_below(entries.len());
                let key = entries[i].0.clone();
                let value = if rng.chance(1, 2) { entries[i].1.clone() } else { random_val(rng, vt, 2) };
                let at = rng.usize_below(entries.len() + 1);
                entries.insert(at, (key, value));
                return true;
            }
            for (_, x) in entries.iter_mut() {
                if dup_key(rng, vt, x) {
                    return true;
                }
            }
            false
        }
        (Ty::Seq(inner), Val::Seq(items)) => {
            for x in items.iter_mut() {
                if dup_key(rng, inner, x) {
                    return true;
                }
            }
            false
        }
        _ => false,
    }
}

/// Produces one case: a type, bytes that went through the channel, an optional allocation fault.
pub fn random_case(rng: &mut Rng, reg: &[Entry], enabled: &[bool]) -> Case {
    let ei = rng.usize_below(reg.len());
    let entry = &reg[ei];
    let mut faults: Vec<String> = Vec::new();
    let pickable: Vec<usize> = (0..FAULT_KINDS.len()).filter(|i| enabled[*i]).collect();
    let mut value = random_value_for(rng, entry);
    let n_faults = match rng.below(10) {
        0 => 0,
        1..=6 => 1,
        7 | 8 => 2,
        _ => 3,
    };
    let mut kinds: Vec<&str> = (0..n_faults).map(|_| FAULT_KINDS[*rng.pick(&pickable)]).collect();
    if kinds.is_empty() {
        kinds.push("none");
    }
    // allocation-fault cases run in a forked child: keep them at about one case in fifty
    if kinds.contains(&"allocfail") && !rng.chance(1, 4) {
        kinds.retain(|k| *k != "allocfail");
        if kinds.is_empty() {
            kinds.push("none");
        }
    }
    if kinds.contains(&"dupkey") && !entry.is_reply && dup_key(rng, &entry.ty, &mut value) {
        faults.push("dupkey".into());
    }
    let mut m = encode_with_marks(rng, entry, &value);
    let mut alloc_fail_nth = 0;
    for k in kinds {
        let len = m.bytes.len();
        match k {
            "none" | "dupkey" => {}
            "truncate" => {
                let at = rng.usize_below(len + 1);
                m.bytes.truncate(at);
                m.sizes.retain(|(o, w)| o + w <= at);
                m.bools.retain(|o| *o < at);
                m.strings.retain(|(o, l)| o + l <= at);
                faults.push(format!("truncate@{at}"));
            }
            "bitflip" if len > 0 => {
                let at = rng.usize_below(len);
                let bit = rng.below(8);
                m.bytes[at] ^= 1 << bit;
                faults.push(format!("bitflip@{at}.{bit}"));
            }
            "setbyte" if len > 0 => {
                let at = rng.usize_below(len);
                let b = *rng.pick(&[0u8, 1, 2, 3, 0x7f, 0x80, 0xfc, 0xfd, 0xfe, 0xff, 0xc0, 0xf8]);
                m.bytes[at] = b;
                faults.push(format!("setbyte@{at}={b:#x}"));
            }
            "insert" => {
                let at = rng.usize_below(len + 1);
                let n = 1 + rng.usize_below(4);
                let ins = rng.bytes(n);
                m.bytes.splice(at..at, ins);
                faults.push(format!("insert@{at}+{n}"));
                m.sizes.clear();
                m.bools.clear();
                m.strings.clear();
            }
            "delete" if len > 0 => {
                let at = rng.usize_below(len);
                let n = (1 + rng.usize_below(4)).min(len - at);
                m.bytes.drain(at..at + n);
                faults.push(format!("delete@{at}-{n}"));
                m.sizes.clear();
                m.bools.clear();
                m.strings.clear();
            }
            "announce" if !m.sizes.is_empty() => {
                let (off, width) = *rng.pick(&m.sizes);
                let mut w = dynval::Writer::new();
                let a = announced(rng);
                w.var_unsigned(a, None);
                m.bytes.splice(off..off + width, w.out);
                faults.push(format!("announce@{off}={a}"));
                m.sizes.clear();
                m.bools.clear();
                m.strings.clear();
            }
            "splice" => {
                let other = random_value_for(rng, entry);
                let o = encode_with_marks(rng, entry, &other);
                let cut_a = rng.usize_below(len + 1);
                let cut_b = rng.usize_below(o.bytes.len() + 1);
                m.bytes.truncate(cut_a);
                m.bytes.extend_from_slice(&o.bytes[cut_b..]);
                faults.push(format!("splice@{cut_a}/{cut_b}"));
                m.sizes.clear();
                m.bools.clear();
                m.strings.clear();
            }
            "badbool" if !m.bools.is_empty() => {
                let at = *rng.pick(&m.bools);
                let b = *rng.pick(&[2u8, 3, 0x80, 0xff, 0x81, 0x10]);
                m.bytes[at] = b;
                faults.push(format!("badbool@{at}={b:#x}"));
            }
            "badutf8" => {
                let cands: Vec<(usize, usize)> = m.strings.iter().copied().filter(|(_, l)| *l > 0).collect();
                if !cands.is_empty() {
                    let (o, l) = *rng.pick(&cands);
                    let at = o + rng.usize_below(l);
                    let b = *rng.pick(&[0xffu8, 0xc0, 0x80, 0xfe, 0xed, 0xf8]);
                    m.bytes[at] = b;
                    faults.push(format!("badutf8@{at}={b:#x}"));
                }
            }
            "random" => {
                let top = *rng.pick(&[4usize, 8, 16, 64]);
                let n = rng.usize_below(top + 1);
                m.bytes = rng.bytes(n);
                // bias the first byte towards small sizes so that decoding gets somewhere
                if n > 0 && rng.chance(1, 2) {
                    m.bytes[0] = (rng.below(16) as u8) << 2;
                }
                faults.push(format!("random{n}"));
                m.sizes.clear();
                m.bools.clear();
                m.strings.clear();
            }
            "allocfail" => {
                // make some payload big enough for a >= 4 KiB reservation, then fail it
                alloc_fail_nth = 1 + rng.usize_below(2);
                faults.push(format!("allocfail#{alloc_fail_nth}"));
            }
            "append" => {
                let n = 1 + rng.usize_below(8);
                let extra = rng.bytes(n);
                m.bytes.extend_from_slice(&extra);
                faults.push(format!("append+{n}"));
            }
            _ => {}
        }
    }
    Case { ty: entry.name.to_owned(), bytes: refcodec::util::hex(&m.bytes), alloc_fail_nth, faults }
}

/// A long valid string / byte sequence so that the armed allocation fault has a >= 4 KiB request to hit.
pub fn big_payload_case(rng: &mut Rng, reg: &[Entry]) -> Case {
    let names = ["string", "Sequence<uint8>", "Sequence<string>", "generator reply", "HashMap<uint8,uint8>", "Sequence<Sequence<uint16>>"];
    let name = *rng.pick(&names);
    let entry = reg.iter().find(|e| e.name == name).unwrap();
    let n = 4096 + rng.usize_below(8192);
    let mut w = dynval::Writer::new();
    match name {
        "string" => {
            w.size(n);
            w.out.extend(std::iter::repeat(b'x').take(n));
        }
        "Sequence<uint8>" => {
            w.size(n);
            w.out.extend(rng.bytes(n));
        }
        "Sequence<string>" => {
            w.size(2);
            w.string("a");
            w.size(n);
            w.out.extend(std::iter::repeat(b'y').take(n));
        }
        "HashMap<uint8,uint8>" => {
            w.size(200);
            for i in 0..200u8 {
                w.out.push(i);
                w.out.push(i);
            }
        }
        "Sequence<Sequence<uint16>>" => {
            w.size(1);
            w.size(n / 2);
            w.out.extend(rng.bytes(n / 2 * 2));
        }
        _ => {
            w.size(1);
            w.string("big.txt");
            w.size(n);
            w.out.extend(std::iter::repeat(b'z').take(n));
            w.tag_end();
            w.size(0);
        }
    }
    let nth = if rng.chance(3, 4) { 0 } else { 1 + rng.usize_below(2) };
    Case { ty: entry.name.to_owned(), bytes: refcodec::util::hex(&w.out), alloc_fail_nth: nth, faults: vec![format!("big/allocfail#{nth}")] }
}

pub fn shrink_candidates(c: &Case) -> Vec<Case> {
    let bytes = refcodec::util::unhex(&c.bytes).unwrap_or_default();
    let mut out = Vec::new();
    let n = bytes.len();
    let mk = |b: &[u8], nth: usize| Case { ty: c.ty.clone(), bytes: refcodec::util::hex(b), alloc_fail_nth: nth, faults: vec![] };
    if c.alloc_fail_nth > 0 {
        out.push(mk(&bytes, 0));
    }
    // truncate from the end, drop chunks, simplify bytes
    let mut chunk = n / 2;
    while chunk >= 1 {
        let mut start = 0;
        while start + chunk <= n {
            let mut b = bytes.clone();
            b.drain(start..start + chunk);
            out.push(mk(&b, c.alloc_fail_nth));
            start += chunk;
        }
        chunk /= 2;
    }
    for i in 0..n.min(64) {
        if bytes[i] != 0 {
            let mut b = bytes.clone();
            b[i] = 0;
            out.push(mk(&b, c.alloc_fail_nth));
        }
    }
    out
}
