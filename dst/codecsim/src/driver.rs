//! Command line of the codec simulation engine (C11, C12).
//!
//!   worker   --engine c11|c12 --seed S --shard I --shards N --tier quick|thorough --budget-ms T --out DIR
//!   replay   FILE                     exit 0 = holds, 1 = violation (prints `CLASS <class>` and `DETAIL <text>`)
//!   minimise FILE OUT                 delta-debugs FILE while the same violation class persists
//!   regen    --engine E --seed S --id K,A,B,C   prints the case a progress record refers to
//!   miri     --engine E --seed S --cases N      in-process run for `cargo miri run`
//!
//! One integer decides everything: case number `n` of a run with seed S is `f(S, n)`, whatever the shard count.

use crate::{c11, c12};
use refcodec::util::Rng;
use serde::{Deserialize, Serialize};
use std::collections::BTreeMap;
use std::io::Write;
use std::time::{Duration, Instant};

#[derive(Clone, Debug, Serialize, Deserialize)]
#[serde(tag = "engine", rename_all = "snake_case")]
pub enum Case {
    C11(c11::Case),
    C12(c12::History),
}

#[derive(Debug)]
struct Outcome {
    class: Option<String>,
    detail: String,
}

/// Runs a case in this process. A panic that escapes the engine's own `catch_unwind` is a harness problem and is
/// reported as class `harness-panic`.
fn evaluate(case: &Case, reg: &[c11::Entry]) -> Outcome {
    let r = std::panic::catch_unwind(std::panic::AssertUnwindSafe(|| match case {
        Case::C12(h) => match c12::run(h) {
            Ok(_) => Outcome { class: None, detail: String::new() },
            Err(v) => Outcome { class: Some(v.class), detail: format!("op #{}: {}", v.at_op, v.detail) },
        },
        Case::C11(c) => {
            let Some(entry) = reg.iter().find(|e| e.name == c.ty) else {
                return Outcome { class: Some("harness-unknown-type".into()), detail: c.ty.clone() };
            };
            let bytes = refcodec::util::unhex(&c.bytes).unwrap_or_default();
            match c11::check(entry, &bytes, c.alloc_fail_nth) {
                Ok(_) => Outcome { class: None, detail: String::new() },
                Err(v) => Outcome { class: Some(v.class), detail: v.detail },
            }
        }
    }));
    match r {
        Ok(o) => o,
        Err(_) => {
            // a panic inside the real buffer code of C12 (e.g. a debug assertion or overflow check)
            Outcome { class: Some("panic".into()), detail: "the operation panicked".into() }
        }
    }
}

/// Evaluates a case in a forked child so that aborts and signals become observations.
fn evaluate_isolated(case: &Case, reg: &[c11::Entry]) -> Outcome {
    unsafe {
        let mut fds = [0i32; 2];
        if libc::pipe(fds.as_mut_ptr()) != 0 {
            return evaluate(case, reg);
        }
        let pid = libc::fork();
        if pid == 0 {
            libc::close(fds[0]);
            libc::alarm(20);
            // whatever the child prints when it dies (abort message, backtrace) must never block on a full pipe
            let devnull = libc::open(b"/dev/null\0".as_ptr() as *const libc::c_char, libc::O_WRONLY);
            if devnull >= 0 {
                libc::dup2(devnull, 2);
            }
            let o = evaluate(case, reg);
            let text = format!("{}\n{}", o.class.unwrap_or_default(), o.detail);
            let b = text.as_bytes();
            let mut off = 0;
            while off < b.len() {
                let n = libc::write(fds[1], b[off..].as_ptr() as *const _, b.len() - off);
                if n <= 0 {
                    break;
                }
                off += n as usize;
            }
            libc::_exit(0);
        }
        libc::close(fds[1]);
        let mut buf = Vec::new();
        let mut chunk = [0u8; 4096];
        loop {
            let n = libc::read(fds[0], chunk.as_mut_ptr() as *mut _, chunk.len());
            if n <= 0 {
                break;
            }
            buf.extend_from_slice(&chunk[..n as usize]);
        }
        libc::close(fds[0]);
        let mut status = 0;
        libc::waitpid(pid, &mut status, 0);
        if libc::WIFSIGNALED(status) {
            let sig = libc::WTERMSIG(status);
            return Outcome { class: Some(format!("crash-signal-{sig}")), detail: format!("the process died of signal {sig}") };
        }
        let text = String::from_utf8_lossy(&buf).into_owned();
        let (class, detail) = text.split_once('\n').unwrap_or((&text, ""));
        Outcome { class: if class.is_empty() { None } else { Some(class.to_owned()) }, detail: detail.to_owned() }
    }
}

fn shrink(case: &Case) -> Vec<Case> {
    match case {
        Case::C11(c) => c11::shrink_candidates(c).into_iter().map(Case::C11).collect(),
        Case::C12(h) => c12::shrink_candidates(h).into_iter().map(Case::C12).collect(),
    }
}

fn minimise(case: Case, reg: &[c11::Entry]) -> (Case, Outcome) {
    let first = evaluate_isolated(&case, reg);
    let Some(class) = first.class.clone() else {
        return (case, first);
    };
    let mut best = case;
    let mut best_outcome = first;
    let deadline = Instant::now() + Duration::from_secs(60);
    'outer: loop {
        for cand in shrink(&best) {
            if Instant::now() > deadline {
                break 'outer;
            }
            let o = evaluate_isolated(&cand, reg);
            if o.class.as_deref() == Some(class.as_str()) {
                best = cand;
                best_outcome = o;
                continue 'outer;
            }
        }
        break;
    }
    (best, best_outcome)
}

// ------------------------------------------------------------------------------------------------------------------
// Case numbering
// ------------------------------------------------------------------------------------------------------------------

/// The plan of a tier: a list of segments; case number n falls into exactly one segment.
#[derive(Clone, Debug)]
enum Segment {
    /// C12 exhaustive: target, capacity, length; `count` histories
    C12Small { target: c12::Target, cap: usize, len: usize, count: u64 },
    /// C11 exhaustive: every byte string of length `len` for type index `ty`
    C11Short { ty: usize, len: usize, count: u64, stride: u64 },
    /// C11: every truncation and every single-byte corruption of `n` sampled valid encodings
    C11Systematic { count: u64 },
    /// open-ended random segment (last)
    Random,
}

fn plan(engine: &str, tier: &str, reg: &[c11::Entry]) -> Vec<Segment> {
    let mut v = Vec::new();
    if engine == "c12" {
        let max_len = 5;
        for target in [c12::Target::SliceOut, c12::Target::VecOut, c12::Target::SliceIn] {
            for cap in 0..=4 {
                for len in 0..=max_len {
                    let full = c12::small_count(target, len);
                    // quick: the length-5 layer of the input source is strided (1 in 4); everything else complete
                    let _ = tier;
                    v.push(Segment::C12Small { target, cap, len, count: full });
                }
            }
        }
    } else {
        for (ty, _) in reg.iter().enumerate() {
            for len in 0..=3usize {
                let full = 256u64.pow(len as u32);
                let stride = if len == 3 && tier == "quick" { 61 } else { 1 };
                v.push(Segment::C11Short { ty, len, count: (full + stride - 1) / stride, stride });
            }
        }
        v.push(Segment::C11Systematic { count: if tier == "quick" { 400 } else { 6000 } });
    }
    v.push(Segment::Random);
    v
}

/// Total number of cases in the finite segments.
fn finite_total(plan: &[Segment]) -> u64 {
    plan.iter()
        .map(|s| match s {
            Segment::C12Small { count, .. } | Segment::C11Short { count, .. } | Segment::C11Systematic { count } => *count,
            Segment::Random => 0,
        })
        .sum()
}

struct Gen<'a> {
    engine: String,
    seed: u64,
    plan: Vec<Segment>,
    reg: &'a [c11::Entry],
    fault_enabled_cache: BTreeMap<u64, Vec<bool>>,
}

impl<'a> Gen<'a> {
    /// Cases produced by number `n` (the systematic C11 segment expands one sampled encoding into many cases).
    fn cases(&mut self, n: u64) -> Vec<Case> {
        let mut base = 0u64;
        for seg in self.plan.clone() {
            match seg {
                Segment::C12Small { target, cap, len, count } => {
                    if n < base + count {
                        return vec![Case::C12(c12::small_history(target, cap, len, n - base))];
                    }
                    base += count;
                }
                Segment::C11Short { ty, len, count, stride } => {
                    if n < base + count {
                        let idx = (n - base) * stride;
                        let bytes: Vec<u8> = (0..len).map(|i| (idx >> (8 * i)) as u8).collect();
                        return vec![Case::C11(c11::Case {
                            ty: self.reg[ty].name.to_owned(),
                            bytes: refcodec::util::hex(&bytes),
                            alloc_fail_nth: 0,
                            faults: vec![format!("exhaustive{len}")],
                        })];
                    }
                    base += count;
                }
                Segment::C11Systematic { count } => {
                    if n < base + count {
                        return self.systematic(n - base);
                    }
                    base += count;
                }
                Segment::Random => {
                    let k = n - base;
                    let mut rng = Rng::derive(self.seed, &self.engine, k);
                    if self.engine == "c12" {
                        return vec![Case::C12(c12::random_history(&mut rng))];
                    }
                    // swarm: the set of enabled fault kinds is drawn per block of 512 cases
                    let block = k / 512;
                    let enabled = self.fault_enabled_cache.entry(block).or_insert_with(|| {
                        let mut r = Rng::derive(self.seed, "c11-swarm", block);
                        let mut e: Vec<bool> = (0..c11::FAULT_KINDS.len()).map(|_| r.chance(2, 3)).collect();
                        if !e.iter().any(|x| *x) {
                            e[0] = true;
                        }
                        e
                    });
                    if rng.chance(1, 40) {
                        return vec![Case::C11(c11::big_payload_case(&mut rng, self.reg))];
                    }
                    return vec![Case::C11(c11::random_case(&mut rng, self.reg, enabled))];
                }
            }
        }
        vec![]
    }

    /// Every truncation and every single-byte corruption (a fixed set of replacement bytes, all 8 bit flips) of one
    /// sampled valid encoding.
    fn systematic(&mut self, k: u64) -> Vec<Case> {
        let mut rng = Rng::derive(self.seed, "c11-systematic", k);
        let entry = &self.reg[(k % self.reg.len() as u64) as usize];
        let v = c11::random_value_for(&mut rng, entry);
        let m = c11::encode_with_marks(&mut rng, entry, &v);
        let mut out = Vec::new();
        let mk = |b: &[u8], what: String| {
            Case::C11(c11::Case { ty: entry.name.to_owned(), bytes: refcodec::util::hex(b), alloc_fail_nth: 0, faults: vec![what] })
        };
        out.push(mk(&m.bytes, "valid".into()));
        for cut in 0..m.bytes.len() {
            out.push(mk(&m.bytes[..cut], format!("truncate@{cut}")));
        }
        for at in 0..m.bytes.len().min(96) {
            for bit in 0..8 {
                let mut b = m.bytes.clone();
                b[at] ^= 1 << bit;
                out.push(mk(&b, format!("bitflip@{at}.{bit}")));
            }
            for rep in [0x00u8, 0x01, 0x02, 0xff, 0xfc, 0x80, 0xc0, 0x7f] {
                if m.bytes[at] != rep {
                    let mut b = m.bytes.clone();
                    b[at] = rep;
                    out.push(mk(&b, format!("setbyte@{at}={rep:#x}")));
                }
            }
        }
        out
    }
}

// ------------------------------------------------------------------------------------------------------------------
// Worker
// ------------------------------------------------------------------------------------------------------------------

#[derive(Default, Serialize)]
struct Summary {
    engine: String,
    shard: u64,
    numbers: u64,
    cases: u64,
    ops: u64,
    failed_ops: u64,
    reservation_writes: u64,
    alloc_faults_delivered: u64,
    aborted_on_injected_allocation_failure: u64,
    grows: u64,
    finite_total: u64,
    finite_done: u64,
    random_cases: u64,
    real_ok: u64,
    real_err: u64,
    by_ref_class: BTreeMap<String, u64>,
    by_fault_kind: BTreeMap<String, u64>,
    by_type: BTreeMap<String, u64>,
    by_target: BTreeMap<String, u64>,
    max_alloc_bytes: usize,
    max_calls: u64,
    violations: u64,
    samples: Vec<Case>,
    wall_ms: u64,
}

const BITMAP_BITS: usize = 1 << 26;

struct Progress {
    ptr: *mut u64,
}
impl Progress {
    fn open(path: &str) -> Progress {
        unsafe {
            let c = std::ffi::CString::new(path).unwrap();
            let fd = libc::open(c.as_ptr(), libc::O_RDWR | libc::O_CREAT, 0o644);
            if fd < 0 || libc::ftruncate(fd, 64) != 0 {
                return Progress { ptr: std::ptr::null_mut() };
            }
            let p = libc::mmap(std::ptr::null_mut(), 64, libc::PROT_READ | libc::PROT_WRITE, libc::MAP_SHARED, fd, 0);
            libc::close(fd);
            Progress { ptr: if p == libc::MAP_FAILED { std::ptr::null_mut() } else { p as *mut u64 } }
        }
    }
    fn set(&self, number: u64, sub: u64) {
        if !self.ptr.is_null() {
            unsafe {
                std::ptr::write_volatile(self.ptr, number);
                std::ptr::write_volatile(self.ptr.add(1), sub);
                std::ptr::write_volatile(self.ptr.add(2), 1);
            }
        }
    }
}

fn arg<'a>(args: &'a [String], name: &str) -> Option<&'a str> {
    args.iter().position(|a| a == name).and_then(|i| args.get(i + 1)).map(|s| s.as_str())
}

fn worker(args: &[String]) -> i32 {
    let engine = arg(args, "--engine").unwrap_or("c12").to_owned();
    let seed: u64 = arg(args, "--seed").and_then(|s| s.parse().ok()).unwrap_or(1);
    let shard: u64 = arg(args, "--shard").and_then(|s| s.parse().ok()).unwrap_or(0);
    let shards: u64 = arg(args, "--shards").and_then(|s| s.parse().ok()).unwrap_or(1);
    let tier = arg(args, "--tier").unwrap_or("quick").to_owned();
    let budget = Duration::from_millis(arg(args, "--budget-ms").and_then(|s| s.parse().ok()).unwrap_or(5000));
    let out = arg(args, "--out").unwrap_or(".").to_owned();
    let max_numbers: u64 = arg(args, "--max-numbers").and_then(|s| s.parse().ok()).unwrap_or(u64::MAX);

    c11::install_quiet_panic_hook();
    let reg = c11::registry();
    let plan = plan(&engine, &tier, &reg);
    let finite = finite_total(&plan);
    let mut gen = Gen { engine: engine.clone(), seed, plan, reg: &reg, fault_enabled_cache: BTreeMap::new() };
    let progress = Progress::open(&format!("{out}/progress-{shard}"));
    let mut bitmap = vec![0u64; BITMAP_BITS / 64];
    let mut s = Summary { engine: engine.clone(), shard, finite_total: finite, ..Default::default() };
    let start = Instant::now();
    let mut random_start: Option<Instant> = None;
    let mut n = shard;
    let mut viol_files = 0;
    let mut seen_violations = std::collections::BTreeSet::new();
    loop {
        // The finite segments are always completed; after them the random segment runs for the time budget.
        if n >= finite {
            let rs = *random_start.get_or_insert_with(Instant::now);
            if rs.elapsed() > budget || n - finite >= max_numbers {
                break;
            }
        }
        let cases = gen.cases(n);
        for (sub, case) in cases.iter().enumerate() {
            progress.set(n, sub as u64);
            s.cases += 1;
            let mut violation: Option<(String, String)> = None;
            match case {
                Case::C12(h) => {
                    *s.by_target.entry(format!("{:?}", h.target)).or_default() += 1;
                    let r = std::panic::catch_unwind(std::panic::AssertUnwindSafe(|| c12::run(h)));
                    match r {
                        Ok(Ok(st)) => {
                            s.ops += st.ops;
                            s.failed_ops += st.failed_ops;
                            s.reservation_writes += st.reservation_writes;
                            s.alloc_faults_delivered += st.alloc_faults;
                            s.grows += st.grows;
                            if st.failed_ops > 0 || st.reservation_writes > 0 {
                                let bit = (st.signature as usize) % BITMAP_BITS;
                                bitmap[bit / 64] |= 1 << (bit % 64);
                            }
                        }
                        Ok(Err(v)) => violation = Some((v.class, format!("op #{}: {}", v.at_op, v.detail))),
                        Err(_) => violation = Some(("panic".into(), "the operation panicked".into())),
                    }
                }
                Case::C11(c) => {
                    let entry = reg.iter().find(|e| e.name == c.ty).unwrap();
                    let bytes = refcodec::util::unhex(&c.bytes).unwrap();
                    for f in &c.faults {
                        let kind: String = f.chars().take_while(|ch| ch.is_ascii_alphabetic()).collect();
                        *s.by_fault_kind.entry(kind).or_default() += 1;
                    }
                    *s.by_type.entry(c.ty.clone()).or_default() += 1;
                    let mut continue_after_isolated = false;
                    if c.alloc_fail_nth > 0 {
                        // An injected allocation failure is only survivable where the code allocates fallibly. A
                        // decoder that grows its collections with ordinary (infallible) pushes aborts, as any Rust
                        // program does when the allocator says no; the statement does not promise otherwise. Such
                        // cases run in a forked child: an abort there is counted, not judged; everything else is.
                        let o = evaluate_isolated(case, &reg);
                        match o.class.as_deref() {
                            None => {
                                s.alloc_faults_delivered += 1;
                                *s.by_ref_class.entry("(isolated allocation-fault case)".to_owned()).or_default() += 1;
                            }
                            Some("crash-signal-6") => {
                                s.aborted_on_injected_allocation_failure += 1;
                            }
                            Some(cl) => violation = Some((cl.to_owned(), o.detail.clone())),
                        }
                        continue_after_isolated = true;
                    }
                    if !continue_after_isolated {
                    match c11::check(entry, &bytes, c.alloc_fail_nth) {
                        Ok(st) => {
                            if st.real_ok {
                                s.real_ok += 1;
                            } else {
                                s.real_err += 1;
                            }
                            *s.by_ref_class.entry(st.ref_class.to_owned()).or_default() += 1;
                            s.alloc_faults_delivered += st.alloc_fault_delivered as u64;
                            s.max_alloc_bytes = s.max_alloc_bytes.max(st.alloc_bytes);
                            s.max_calls = s.max_calls.max(st.calls);
                            if st.ref_class != "ok" || st.alloc_fault_delivered {
                                let bit = (st.signature as usize) % BITMAP_BITS;
                                bitmap[bit / 64] |= 1 << (bit % 64);
                            }
                        }
                        Err(v) => violation = Some((v.class, v.detail)),
                    }
                    }
                }
            }
            if let Some((class, detail)) = violation {
                s.violations += 1;
                let subject = match case {
                    Case::C11(c) => c.ty.clone(),
                    Case::C12(h) => format!("{:?}", h.target),
                };
                // one file per (class, subject), so that a frequent violation cannot crowd out a rare one
                if viol_files < 64 && seen_violations.insert((class.clone(), subject)) {
                    let path = format!("{out}/viol-{shard}-{viol_files}.json");
                    let doc = serde_json::json!({ "class": class, "detail": detail, "number": n, "sub": sub, "case": case });
                    let _ = std::fs::write(&path, serde_json::to_vec_pretty(&doc).unwrap());
                    viol_files += 1;
                }
            }
            if s.samples.len() < 3 && (s.cases == 1 || (n >= finite && s.samples.len() < 3)) {
                s.samples.push(case.clone());
            }
        }
        s.numbers += 1;
        if n < finite {
            s.finite_done += 1;
        } else {
            s.random_cases += cases.len() as u64;
        }
        n += shards;
    }
    s.wall_ms = start.elapsed().as_millis() as u64;
    let bytes: Vec<u8> = bitmap.iter().flat_map(|w| w.to_le_bytes()).collect();
    let _ = std::fs::write(format!("{out}/bitmap-{shard}"), bytes);
    let _ = std::fs::write(format!("{out}/summary-{shard}.json"), serde_json::to_vec(&s).unwrap());
    0
}

fn read_case(path: &str) -> Result<Case, String> {
    let text = std::fs::read_to_string(path).map_err(|e| format!("{path}: {e}"))?;
    let v: serde_json::Value = serde_json::from_str(&text).map_err(|e| format!("{path}: {e}"))?;
    // accept both a bare case and a violation / replay document with a "case" member
    let c = if v.get("case").is_some() { v["case"].clone() } else { v };
    serde_json::from_value(c).map_err(|e| format!("{path}: {e}"))
}

pub fn main() {
    let args: Vec<String> = std::env::args().collect();
    let code = match args.get(1).map(|s| s.as_str()) {
        Some("worker") => worker(&args),
        Some("replay") => {
            c11::install_quiet_panic_hook();
            let reg = c11::registry();
            match read_case(&args[2]) {
                Err(e) => {
                    eprintln!("harness error: {e}");
                    2
                }
                Ok(case) => {
                    let o = if args.iter().any(|a| a == "--in-process") { evaluate(&case, &reg) } else { evaluate_isolated(&case, &reg) };
                    match o.class {
                        None => {
                            println!("HOLDS");
                            0
                        }
                        Some(c) => {
                            println!("CLASS {c}");
                            println!("DETAIL {}", o.detail.replace('\n', " "));
                            1
                        }
                    }
                }
            }
        }
        Some("minimise") => {
            c11::install_quiet_panic_hook();
            let reg = c11::registry();
            match read_case(&args[2]) {
                Err(e) => {
                    eprintln!("harness error: {e}");
                    2
                }
                Ok(case) => {
                    let (best, o) = minimise(case, &reg);
                    let doc = serde_json::json!({ "class": o.class, "detail": o.detail, "case": best });
                    std::fs::write(&args[3], serde_json::to_vec_pretty(&doc).unwrap()).unwrap();
                    match o.class {
                        None => 0,
                        Some(c) => {
                            println!("CLASS {c}");
                            1
                        }
                    }
                }
            }
        }
        Some("regen") => {
            let engine = arg(&args, "--engine").unwrap_or("c12").to_owned();
            let seed: u64 = arg(&args, "--seed").and_then(|s| s.parse().ok()).unwrap_or(1);
            let tier = arg(&args, "--tier").unwrap_or("quick").to_owned();
            let number: u64 = arg(&args, "--number").and_then(|s| s.parse().ok()).unwrap_or(0);
            let sub: usize = arg(&args, "--sub").and_then(|s| s.parse().ok()).unwrap_or(0);
            let reg = c11::registry();
            let plan = plan(&engine, &tier, &reg);
            let mut gen = Gen { engine, seed, plan, reg: &reg, fault_enabled_cache: BTreeMap::new() };
            let cases = gen.cases(number);
            match cases.get(sub) {
                Some(c) => {
                    println!("{}", serde_json::to_string_pretty(c).unwrap());
                    0
                }
                None => 2,
            }
        }
        Some("miri") => miri_mode(&args),
        _ => {
            eprintln!("usage: codecsim worker|replay|minimise|regen|miri ...");
            2
        }
    };
    let _ = std::io::stdout().flush();
    std::process::exit(code);
}

/// In-process run without files, forks or clocks: what `cargo miri run` executes.
fn miri_mode(args: &[String]) -> i32 {
    let engine = arg(args, "--engine").unwrap_or("c12").to_owned();
    let seed: u64 = arg(args, "--seed").and_then(|s| s.parse().ok()).unwrap_or(1);
    let cases: u64 = arg(args, "--cases").and_then(|s| s.parse().ok()).unwrap_or(100);
    let offset: u64 = arg(args, "--offset").and_then(|s| s.parse().ok()).unwrap_or(0);
    c11::install_quiet_panic_hook();
    let reg = c11::registry();
    let mut rng_pick = Rng::derive(seed, "miri-pick", offset);
    let mut done = 0u64;
    let mut ops = 0u64;
    let mut sigs = std::collections::BTreeSet::new();
    let mut enabled = vec![true; c11::FAULT_KINDS.len()];
    // the allocation-fault kind needs multi-KiB payloads, which are too slow to interpret
    enabled[c11::FAULT_KINDS.iter().position(|k| *k == "allocfail").unwrap()] = false;
    for k in 0..cases {
        let case = if engine == "c12" {
            // half small-scope histories (sampled), half random ones with small sizes
            if k % 2 == 0 {
                let target = *rng_pick.pick(&[c12::Target::SliceOut, c12::Target::VecOut, c12::Target::SliceIn]);
                let len = 1 + rng_pick.usize_below(5);
                let idx = rng_pick.below(c12::small_count(target, len));
                Case::C12(c12::small_history(target, rng_pick.usize_below(5), len, idx))
            } else {
                let mut rng = Rng::derive(seed, "c12-miri", offset + k);
                let mut h = c12::random_history(&mut rng);
                h.ops.truncate(40);
                for op in h.ops.iter_mut() {
                    match op {
                        c12::Op::W { k } | c12::Op::Ri { k } | c12::Op::Wr { k, .. } => *k %= 40,
                        c12::Op::R { k, .. } | c12::Op::Ps { k, .. } | c12::Op::Rs { k, .. } => *k %= 40,
                        _ => {}
                    }
                }
                h.cap %= 128;
                Case::C12(h)
            }
        } else {
            let mut rng = Rng::derive(seed, "c11-miri", offset + k);
            Case::C11(c11::random_case(&mut rng, &reg, &enabled))
        };
        let o = evaluate(&case, &reg);
        done += 1;
        if let Case::C12(h) = &case {
            ops += h.ops.len() as u64;
        }
        // (no JSON here: serialising under the interpreter costs more than the case itself)
        sigs.insert(match &case {
            Case::C11(c) => refcodec::util::fnv1a(c.bytes.as_bytes()) ^ refcodec::util::fnv1a(c.ty.as_bytes()),
            Case::C12(h) => {
                let mut f = refcodec::util::Fnv::default();
                f.update_u64(h.cap as u64 ^ (h.data_seed << 8) ^ h.target as u64);
                for op in &h.ops {
                    f.update_u64(match op {
                        c12::Op::Wb => 1,
                        c12::Op::W { k } => 2 + ((*k as u64) << 8),
                        c12::Op::R { k, huge } => 3 + ((*k as u64) << 8) + ((*huge as u64) << 40),
                        c12::Op::Wr { r, k } => 4 + ((*k as u64) << 8) + ((*r as u64) << 40),
                        c12::Op::Rem => 5,
                        c12::Op::Pb => 6,
                        c12::Op::Rb => 7,
                        c12::Op::Pn { n } => 8 + ((*n as u64) << 8),
                        c12::Op::Rn { n } => 9 + ((*n as u64) << 8),
                        c12::Op::Ps { k, .. } => 10 + ((*k as u64) << 8),
                        c12::Op::Rs { k, .. } => 11 + ((*k as u64) << 8),
                        c12::Op::Ri { k } => 12 + ((*k as u64) << 8),
                    });
                }
                f.0
            }
        });
        if let Some(class) = o.class {
            println!("MIRI-VIOLATION class={class} detail={} case={}", o.detail.replace('\n', " "), serde_json::to_string(&case).unwrap());
            return 1;
        }
    }
    println!("MIRI-OK engine={engine} cases={done} ops={ops} distinct={}", sigs.len());
    0
}
